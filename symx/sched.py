"""Path exploration by re-execution + obligation proving.

A *harness* is a function  h(ctx, **params)  that declares inputs through ctx, calls the
real pMuTT code and states obligations through ctx.  It is run
  * symbolically (SymCtx): inputs are proxies, every feasible path is explored by
    decision-prefix re-execution, every obligation on every path goes to z3;
  * concretely (ConcCtx): inputs are floats from a solver model / random point, the same
    obligations are evaluated numerically.  Used for replay (on the uninstrumented package
    in a fresh interpreter) and for translator validation.
"""
import math
import random
import time
import traceback
import warnings
from fractions import Fraction

import z3

from . import expr as X
from .proxy import Sym, lift, Escape, _decide
from .encode import Encoder


class Infeasible(BaseException):
    pass


class PathLimit(BaseException):
    pass


class Goal:
    __slots__ = ('label', 'cond', 'kind', 'lhs', 'rhs', 'tol', 'info')

    def __init__(self, label, cond, kind='true', lhs=None, rhs=None, tol=None, info=None):
        self.label = label
        self.cond = cond
        self.kind = kind
        self.lhs = lhs
        self.rhs = rhs
        self.tol = tol
        self.info = info


class PathResult:
    def __init__(self):
        self.pc = []
        self.goals = []
        self.decisions = []
        self.exc = None
        self.notes = []


# ------------------------------------------------------------------------------------------
class SymCtx:
    mode = 'sym'

    def __init__(self, explorer):
        self.x = explorer
        self.assumptions = []
        self.inputs = {}       # name -> (sort, lo, hi)
        self.hints = {}        # name -> (lo, hi) used only when sampling validation points
        self.char_ranges = {}
        self.goals = []
        self.notes = []
        self._fresh = 0

    # ---- inputs
    def real(self, name, lo=None, hi=None, lo_open=False, hi_open=False, hint=None):
        v = X.var(name, 'R')
        self.inputs[name] = ('R', lo, hi)
        if hint is not None:
            self.hints[name] = hint
        if lo is not None:
            self.assumptions.append((X.lt if lo_open else X.le)(X.const(lo), v))
        if hi is not None:
            self.assumptions.append((X.lt if hi_open else X.le)(v, X.const(hi)))
        return Sym(v)

    def int(self, name, lo=None, hi=None):
        v = X.var(name, 'I')
        self.inputs[name] = ('I', lo, hi)
        if lo is not None:
            self.assumptions.append(X.le(X.iconst(lo), v))
        if hi is not None:
            self.assumptions.append(X.le(v, X.iconst(hi)))
        return Sym(v)

    def bool(self, name):
        self.inputs[name] = ('B', None, None)
        return Sym(X.var(name, 'B'))

    def fresh(self, prefix='stub', lo=None, hi=None):
        """a nondeterministic stub result (not an input of the real code: replay picks it)"""
        self._fresh += 1
        return self.real('%s#%d' % (prefix, self._fresh), lo, hi)

    def assume(self, cond):
        c = lift(cond)
        if c is X.FALSE:
            raise Infeasible()
        if c is not X.TRUE:
            self.assumptions.append(c)
            self.x.assumption_added()

    # ---- obligations
    def eq(self, label, a, b, tol=None, rel=None, info=None):
        """a == b (exact over the reals), or |a-b| <= tol + rel*|b| when a tolerance is given"""
        ea, eb = X.to_real(_n(lift(a))), X.to_real(_n(lift(b)))
        if tol is None and rel is None:
            cond = X.eq(ea, eb)
        else:
            t = X.const(tol or 0)
            if rel:
                absb = X.ite(X.lt(eb, X.const(0)), X.neg(eb), eb)
                t = X.add(t, X.mul(X.const(rel), absb))
            d = X.sub(ea, eb)
            cond = X.and_(X.le(d, t), X.le(X.neg(t), d))
        self.goals.append(Goal(label, cond, 'eq', ea, eb, (tol, rel), info))

    def true(self, label, cond, info=None):
        c = lift(cond) if not isinstance(cond, bool) else X.bconst(cond)
        if c.sort != 'B':
            c = X.ne(c, X.const(0))
        self.goals.append(Goal(label, c, 'true', None, None, None, info))

    def fail(self, label, info=None):
        self.goals.append(Goal(label, X.FALSE, 'true', None, None, None, info))

    def deriv(self, fn, x, n_check=None):
        """d fn(x) / dx  at x (x must be an input variable proxy)"""
        ex = lift(x)
        if ex.op != 'v':
            raise ValueError('deriv: x must be an input variable')
        y = fn(x)
        return Sym(X.D(X.to_real(_n(lift(y))), ex.args[0]))

    def note(self, text):
        self.notes.append(text)

    def is_sym(self):
        return True

    # ---- strings
    def char(self, name, ranges):
        """symbolic character restricted to the given code-point ranges"""
        v = X.var(name, 'I')
        lo = min(r[0] for r in ranges)
        hi = max(r[1] for r in ranges)
        self.inputs[name] = ('I', lo, hi)
        self.char_ranges[name] = list(ranges)
        conds = [X.and_(X.le(X.iconst(a), v), X.le(v, X.iconst(b))) for a, b in ranges]
        self.assumptions.append(X.or_(*conds))
        return Sym(v)

    def string(self, cells):
        from .symstr import SymStr
        return SymStr(cells)

    def code(self, cell):
        return cell if isinstance(cell, Sym) else ord(cell)

    def blob(self, name, lo, hi):
        from .symstr import SymStr, Blob
        return SymStr((Blob(name, self.int(name + '.len', lo, hi)),))

    def is_blob(self, s):
        from .symstr import SymStr, Blob
        return isinstance(s, SymStr) and len(s.cells) == 1 and isinstance(s.cells[0], Blob)

    def same_blob(self, a, b):
        return a.cells[0] is b.cells[0]

    def length(self, s):
        from .symstr import sym_len
        return sym_len(s)

    def choose(self, name, options):
        """nondeterministic choice among concrete options (each becomes a path)"""
        options = list(options)
        if len(options) == 1:
            return options[0]
        k = self.int('choice:' + name, 0, len(options) - 1)
        for i, o in enumerate(options[:-1]):
            if k == i:
                return o
        return options[-1]


def _n(e):
    return X.to_real(e) if e.sort == 'B' else e


# ------------------------------------------------------------------------------------------
class ConcCtx:
    mode = 'conc'

    def __init__(self, env, tol=1e-7, dtol=2e-5):
        from . import loader as _ld
        _ld.reset_module_state()       # nothing a symbolic path left in a module-level container is seen by a concrete run
        self.env = env
        self.tolv = tol
        self.dtol = dtol
        self.results = []     # (label, ok, lhs, rhs)
        self.notes = []
        self._fresh = 0
        self.assume_failed = False
        self.in_deriv = False

    def _get(self, name, lo, hi, conv):
        if name not in self.env:
            raise KeyError('replay environment lacks %s' % name)
        return conv(self.env[name])

    def real(self, name, lo=None, hi=None, lo_open=False, hi_open=False, hint=None):
        return self._get(name, lo, hi, float)

    def int(self, name, lo=None, hi=None):
        return self._get(name, lo, hi, lambda v: int(round(float(v))))

    def bool(self, name):
        return bool(self.env[name])

    def fresh(self, prefix='stub', lo=None, hi=None):
        self._fresh += 1
        return self.real('%s#%d' % (prefix, self._fresh))

    def assume(self, cond):
        if not cond:
            self.assume_failed = True
            raise Infeasible()

    def eq(self, label, a, b, tol=None, rel=None, info=None):
        import numpy as np
        a = float(a); b = float(b)
        if tol is None and rel is None:
            t = (self.dtol if self.in_deriv or info == 'deriv' else self.tolv) * max(1.0, abs(a), abs(b))
        else:
            t = (tol or 0) + (rel or 0) * abs(b)
            t = t * (1 + 1e-9) + 1e-300
        if math.isinf(a) or math.isinf(b):
            ok = (a == b)           # an overflowed value equals only the same infinity (inf <= inf*rel would accept anything)
        else:
            ok = (abs(a - b) <= t) and not (math.isnan(a) or math.isnan(b))
        self.results.append((label, bool(ok), a, b))

    def true(self, label, cond, info=None):
        self.results.append((label, bool(cond), None, None))

    def fail(self, label, info=None):
        self.results.append((label, False, None, None))

    def deriv(self, fn, x):
        x = float(x)
        h = 2e-3 * abs(x) if abs(x) > 1e-9 else 1e-6
        f = lambda t: float(fn(t))
        # 5-point stencil
        return (-f(x + 2 * h) + 8 * f(x + h) - 8 * f(x - h) + f(x - 2 * h)) / (12 * h)

    def note(self, text):
        self.notes.append(text)

    def is_sym(self):
        return False

    # ---- strings
    def char(self, name, ranges):
        return chr(int(self.env[name]))

    def string(self, cells):
        return ''.join(cells)

    def code(self, cell):
        return ord(cell)

    def blob(self, name, lo, hi):
        n = int(self.env[name + '.len'])
        letter = chr(97 + (sum(map(ord, name)) % 26))
        return (letter + name)[:n].ljust(n, letter)

    def is_blob(self, s):
        return False

    def same_blob(self, a, b):
        return a == b

    def length(self, s):
        return len(s)

    def choose(self, name, options):
        options = list(options)
        if len(options) == 1:
            return options[0]
        return options[self.int('choice:' + name)]


# ------------------------------------------------------------------------------------------
class Explorer:
    """decision-prefix DFS over the symbolic branches of one harness"""

    def __init__(self, harness, params=None, max_paths=400, max_depth=400, branch_timeout_ms=5000, remote_feasibility=False):
        # remote_feasibility: branch-feasibility queries go to the killable solver process (for path conditions with
        # nonlinear constraints, where an in-process z3 may ignore its timeout); unknown / killed = explore the branch
        self.remote = remote_feasibility
        self.client = None
        self.h = harness
        self.params = params or {}
        self.max_paths = max_paths
        self.max_depth = max_depth
        self.bt = branch_timeout_ms
        self.queries = 0
        self.solver_time = 0.0
        self.paths = []
        self.truncated = False

    # -- called by proxies
    def decide(self, cond):
        r = self.run
        # already decided on this path: no new information, no query, no new decision
        known = r.known.get(cond.uid)
        if known is not None:
            return known
        if r.pos < len(r.prefix):
            b = r.prefix[r.pos][0]
            if len(r.prefix[r.pos]) > 2 and r.prefix[r.pos][2] != cond.uid:
                raise Escape('re-execution met a different branch condition at decision %d (nondeterministic harness?)' % r.pos)
            r.trace.append(r.prefix[r.pos])
        else:
            if len(r.trace) >= self.max_depth:
                raise PathLimit('depth')
            t_ok = self._feasible(cond)
            f_ok = self._feasible(X.not_(cond))
            if t_ok and f_ok:
                b = True
                r.trace.append((True, False, cond.uid))       # (value, exhausted, condition)
            elif t_ok:
                b = True
                r.trace.append((True, True, cond.uid))
            elif f_ok:
                b = False
                r.trace.append((False, True, cond.uid))
            else:
                raise Infeasible()
        r.pos += 1
        r.pc.append(cond if b else X.not_(cond))
        r.known[cond.uid] = b
        r.known[X.not_(cond).uid] = not b
        return b

    def assumption_added(self):
        self.run.synced = None

    def pick_int(self, e):
        """an integer value the term can take on the current path (None if the path condition is not satisfiable / unknown);
        used to enumerate, by forking, the values of a symbolic integer that reaches a C boundary (index, repeat count)"""
        r = self.run
        self._sync()
        z = r.enc.integer(e)
        self._sync()
        self.queries += 1
        t = time.time()
        res = str(r.solver.check())
        self.solver_time += time.time() - t
        if res != 'sat':
            return None
        v = r.solver.model().eval(z, model_completion=True)
        try:
            return v.as_long()
        except Exception:
            return None

    def _sync(self):
        r = self.run
        if r.synced is None:
            r.enc = Encoder(group=False)
            r.solver = z3.Solver()
            r.solver.set('timeout', self.bt)
            r.synced = [0, 0, 0]
        s = r.synced
        A = self.ctx.assumptions
        for a in A[s[0]:]:
            r.solver.add(r.enc.boolean(a))
        s[0] = len(A)
        for c in r.pc[s[1]:]:
            r.solver.add(r.enc.boolean(c))
        s[1] = len(r.pc)
        for c in r.enc.cons[s[2]:]:
            r.solver.add(c)
        s[2] = len(r.enc.cons)

    def _feasible(self, cond):
        r = self.run
        self._sync()
        zc = r.enc.boolean(cond)
        self._sync()            # constraints produced while encoding cond
        t = time.time()
        r.solver.push()
        r.solver.add(zc)
        if self.remote:
            if self.client is None:
                from .solver_server import SolverClient
                self.client = SolverClient()
            res, _ = self.client.ask(r.solver.to_smt2(), self.bt, None)
        else:
            res = str(r.solver.check())
        r.solver.pop()
        self.queries += 1
        self.solver_time += time.time() - t
        return res != 'unsat'      # unknown -> explore (sound)

    # -- driver
    def explore(self):
        prefix = []
        _decide[0] = self.decide
        from . import proxy as _px
        _px._pick[0] = self.pick_int
        while True:
            if len(self.paths) >= self.max_paths:
                self.truncated = True
                break
            res = self._run_once(prefix)
            if res is not None:
                self.paths.append(res)
            # backtrack
            tr = self.run.trace
            while tr and tr[-1][1]:
                tr.pop()
            if not tr:
                break
            tr[-1] = (False, True) + tuple(tr[-1][2:])
            prefix = tr
        return self.paths

    def _run_once(self, prefix):
        class R:
            pass
        r = R()
        r.prefix = list(prefix)
        r.trace = []
        from . import proxy as _px
        del _px._hash_registry[:]
        from . import loader as _ld
        _ld.reset_module_state()
        r.pos = 0
        r.pc = []
        r.known = {}
        r.synced = None
        self.run = r
        ctx = SymCtx(self)
        self.ctx = ctx
        pr = PathResult()
        try:
            with warnings.catch_warnings(record=True) as w:
                warnings.simplefilter('always')
                ctx.warnings = w
                self.h(ctx, **self.params)
        except Infeasible:
            return None
        except PathLimit:
            self.truncated = True
            return None
        except Escape as e:
            pr.exc = ('Escape', str(e), traceback.format_exc())
        except Exception as e:
            pr.exc = (type(e).__name__, str(e), traceback.format_exc())
        pr.pc = list(r.pc)
        pr.goals = ctx.goals
        pr.assumptions = list(ctx.assumptions)
        pr.inputs = dict(ctx.inputs)
        pr.hints = dict(ctx.hints)
        pr.notes = ctx.notes
        pr.decisions = [d[0] for d in r.trace]
        return pr


# ------------------------------------------------------------------------------------------
def model_env(model, enc, inputs):
    env = {}
    for name, (sort, lo, hi) in inputs.items():
        zv = enc.z.get(name)
        if zv is None:
            # variable irrelevant to the query: any in-range value
            if sort == 'B':
                env[name] = False
            elif sort == 'I':
                env[name] = lo if lo is not None else 0
            else:
                if lo is not None and hi is not None:
                    env[name] = (float(lo) + float(hi)) / 2
                elif lo is not None:
                    env[name] = float(lo) + 1.0
                elif hi is not None:
                    env[name] = float(hi) - 1.0
                else:
                    env[name] = 0.5
            continue
        v = model.eval(zv, model_completion=True)
        if sort == 'B':
            env[name] = bool(z3.is_true(v))
        elif sort == 'I':
            env[name] = v.as_long()
        else:
            if z3.is_algebraic_value(v):
                v = v.approx(30)
            env[name] = float(Fraction(v.numerator_as_long(), v.denominator_as_long()))
    return env


def guarded_check(s, timeout_ms):
    """s.check() with a hard wall-clock guard: z3's soft timeout is not honoured inside some
    nonlinear procedures, so a timer thread interrupts the context; the verdict is then unknown"""
    import threading
    fired = []

    def fire():
        fired.append(1)
        try:
            s.ctx.interrupt()
        except Exception:
            pass
    tm = threading.Timer(timeout_ms / 1000.0 + 2.0, fire)
    tm.daemon = True
    tm.start()
    try:
        r = str(s.check())
    except z3.Z3Exception:
        r = 'unknown'
    finally:
        tm.cancel()
    if fired:
        r = 'unknown'
    return r


def forked_check(s, timeout_ms, model_fn=None):
    """decide s in a forked child that can be killed: z3's nonlinear procedures sometimes ignore
    both the soft timeout and Z3_interrupt.  Returns (verdict, env-or-None)."""
    import os, select, json
    r, w = os.pipe()
    pid = os.fork()
    if pid == 0:
        try:
            os.close(r)
            try:
                res = str(s.check())
            except BaseException:
                res = 'unknown'
            payload = {'r': res}
            if res == 'sat' and model_fn is not None:
                try:
                    payload['env'] = model_fn(s.model())
                except BaseException as e:
                    payload['env_error'] = repr(e)
            os.write(w, json.dumps(payload).encode())
        finally:
            os._exit(0)
    os.close(w)
    deadline = time.time() + timeout_ms / 1000.0 + 3.0
    data = b''
    verdict, env = 'unknown', None
    try:
        while True:
            left = deadline - time.time()
            if left <= 0:
                break
            rl, _, _ = select.select([r], [], [], left)
            if not rl:
                break
            chunk = os.read(r, 65536)
            if not chunk:
                break
            data += chunk
        if data:
            try:
                payload = json.loads(data.decode())
                verdict = payload.get('r', 'unknown')
                env = payload.get('env')
                if verdict == 'sat' and model_fn is not None and env is None:
                    verdict = 'unknown'
            except ValueError:
                verdict = 'unknown'
    finally:
        os.close(r)
        try:
            os.kill(pid, 9)
        except OSError:
            pass
        try:
            os.waitpid(pid, 0)
        except OSError:
            pass
    return verdict, env


class Prover:
    def __init__(self, timeout_ms=30000, cross_budget=0, cross_stride=5, cross_timeout_ms=10000):
        self.timeout = timeout_ms
        # second solver: every `cross_stride`-th decided non-trivial goal is re-decided by cvc5 until the budget is used
        self.cross_budget = cross_budget
        self.cross_stride = cross_stride
        self.cross_timeout = cross_timeout_ms
        self.cross = dict(asked=0, agree=0, unknown=0, disagree=0, errors=0, time_s=0.0)
        self.cross_disagreements = []
        self.cross_client = None
        self._cross_count = 0
        self.queries = 0
        self.solver_time = 0.0
        self.samples = []
        self.slow = []
        self.client = None
        self.cur_inputs = None

    def _check(self, s, what='?', model_fn=None):
        t = time.time()
        if self.client is None:
            from .solver_server import SolverClient
            self.client = SolverClient()
        self.last_smt2 = s.to_smt2()
        r, env = self.client.ask(self.last_smt2, self.timeout, self.cur_inputs if model_fn is not None else None)
        self.last_env = env
        self.queries += 1
        dt = time.time() - t
        self.solver_time += dt
        if dt > 5:
            self.slow.append('%s %.1fs %s' % (what, dt, r))
        return r

    def _cross_check(self, label, verdict, smt2):
        self._cross_count += 1
        if (self._cross_count - 1) % self.cross_stride:
            return
        if self.cross_client is None:
            from .cvc5_server import Cvc5Client
            self.cross_client = Cvc5Client()
        self.cross_budget -= 1
        t = time.time()
        r2, err = self.cross_client.ask(smt2, self.cross_timeout)
        self.cross['time_s'] += time.time() - t
        self.cross['asked'] += 1
        if err and r2 == 'unknown' and 'hard timeout' not in err:
            self.cross['errors'] += 1
            if len(self.cross_disagreements) < 5:
                self.cross_disagreements.append(dict(label=label, z3=verdict, cvc5='error: ' + err, fatal=False))
        if r2 == 'unknown':
            self.cross['unknown'] += 1
        elif r2 == verdict:
            self.cross['agree'] += 1
        else:
            self.cross['disagree'] += 1
            self.cross_disagreements.append(dict(label=label, z3=verdict, cvc5=r2, fatal=True, smt2=smt2[:4000]))

    def prove_path(self, pr):
        """returns list of dict per goal: label, verdict in {unsat, sat, unknown}, env (if sat)"""
        out = []
        if not pr.goals and not pr.exc:
            return out, 'no-goals'
        roots = list(pr.assumptions) + list(pr.pc) + [g.cond for g in pr.goals]
        enc = Encoder(roots, group=True, inputs=pr.inputs)
        zA = [enc.boolean(a) for a in pr.assumptions]
        zP = [enc.boolean(c) for c in pr.pc]
        zG = [enc.boolean(g.cond) for g in pr.goals]
        enc.finalize()
        s = z3.Solver()
        s.set('timeout', self.timeout)
        for z in zA + zP + enc.cons:
            s.add(z)
        mf = True
        self.cur_inputs = {k: [v[0], v[1], v[2]] for k, v in pr.inputs.items()}
        # reachability twin
        reach = self._check(s, 'reachability')
        if reach == 'unsat':
            return [dict(label=g.label, verdict='vacuous') for g in pr.goals], 'infeasible'
        # definedness / proportionality side obligations
        side_bad = []
        if enc.side:
            seen = set()
            sides = []
            for z, txt in enc.side:
                k = z.get_id()
                if k not in seen:
                    seen.add(k)
                    sides.append((z, txt))
            s.push()
            s.add(z3.Or(*[z3.Not(z) for z, _ in sides]))
            r = self._check(s, 'all %d side obligations' % len(sides))
            s.pop()
            if r != 'unsat':
                for z, txt in sides:
                    s.push()
                    s.add(z3.Not(z))
                    r1 = self._check(s, 'side: ' + txt, mf)
                    if r1 != 'unsat':
                        env = self.last_env if r1 == 'sat' else None
                        side_bad.append((txt, r1, env))
                    s.pop()
        for g, zg in zip(pr.goals, zG):
            s.push()
            s.add(z3.Not(zg))
            t_g = time.time()
            r = self._check(s, 'goal: ' + g.label, mf)
            rec = dict(label=g.label, verdict=r)
            if r in ('sat', 'unsat') and self.cross_budget > 0 and g.cond is not X.TRUE:
                self._cross_check(g.label, r, self.last_smt2)
            if r == 'sat':
                rec['env'] = self.last_env
            elif r == 'unknown':
                # second attempt: fresh non-incremental solver (full preprocessing, nlsat)
                s2 = z3.Solver()
                s2.set('timeout', self.timeout)
                for z in zA + zP + enc.cons:
                    s2.add(z)
                s2.add(z3.Not(zg))
                r2 = self._check(s2, 'goal(fresh solver): ' + g.label, mf)
                rec['verdict'] = r2
                if r2 == 'sat':
                    rec['env'] = self.last_env
            if len(self.samples) < 3 and rec['verdict'] == 'unsat':
                try:
                    txt = s.to_smt2()
                    if len(txt) < 6000:
                        self.samples.append(dict(label=g.label, verdict='unsat', smt2=txt))
                    else:
                        self.samples.append(dict(label=g.label, verdict='unsat', smt2=txt[:1500] + '\n;... (%d chars)' % len(txt)))
                except Exception:
                    pass
            s.pop()
            rec['t'] = round(time.time() - t_g, 3)
            out.append(rec)
        self.last_side_bad = side_bad
        self.last_groups = enc.n_groups
        return out, ('side:' + '; '.join('%s[%s]' % (t, r) for t, r, _ in side_bad)) if side_bad else 'ok'


# ------------------------------------------------------------------------------------------
def sample_env(inputs, assumptions, rnd, tries=200, hints=None):
    """random point inside the declared bounds that satisfies the other assumptions"""
    for _ in range(tries):
        env = {}
        for name, (sort, lo, hi) in inputs.items():
            if hints and name in hints:
                lo, hi = hints[name]
            if sort == 'B':
                env[name] = rnd.random() < 0.5
            elif sort == 'I':
                l = lo if lo is not None else -5
                h = hi if hi is not None else 5
                env[name] = rnd.randint(l, h)
            else:
                l = float(lo) if lo is not None else (-10.0 if hi is None else float(hi) - 20.0)
                h = float(hi) if hi is not None else (10.0 if lo is None else float(lo) + 20.0)
                if l > 0 and h / l > 100:
                    env[name] = math.exp(rnd.uniform(math.log(l), math.log(h)))
                else:
                    env[name] = rnd.uniform(l, h)
        try:
            if all(X.ev(a, env, 'float') for a in assumptions):
                return env
        except X.EvalError:
            continue
    return None
