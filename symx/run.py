"""Runner: explores every obligation group of one property on 16 workers, proves, replays,
writes evidence, prints VIOLATION / KNOWN-FINDING lines, sets the exit code.

exit 0  every obligation discharged (or listed known finding)
exit 1  a reproduced, unlisted violation (VIOLATION line printed)
exit 2  harness error / inconclusive (translator mismatch, escape to C, solver unknown, ...)
"""
import fnmatch
import hashlib
import importlib
import json
import multiprocessing as mp
import os
import random
import subprocess
import sys
import time
import traceback

VERIF = os.path.dirname(os.path.dirname(os.path.abspath(__file__)))
PY = os.path.join(VERIF, '.venv', 'bin', 'python')


def _load_check(pid):
    sys.path.insert(0, VERIF) if VERIF not in sys.path else None
    return importlib.import_module('checks.%s' % pid.lower())


def _jsonable(o):
    if isinstance(o, dict):
        return {str(k): _jsonable(v) for k, v in o.items()}
    if isinstance(o, (list, tuple)):
        return [_jsonable(v) for v in o]
    if isinstance(o, (str, int, float, bool)) or o is None:
        return o
    return repr(o)


# ----------------------------------------------------------------------------------------
_server = [None]


def _get_server():
    sv = _server[0]
    if sv is not None and sv.poll() is None:
        return sv
    sv = subprocess.Popen([PY, '-m', 'symx.replay', '--server'], stdin=subprocess.PIPE, stdout=subprocess.PIPE,
                          stderr=subprocess.DEVNULL, text=True, cwd=VERIF, env=dict(os.environ, PYTHONPATH=VERIF))
    _server[0] = sv
    return sv


def replay_concrete(pid, gname, params, env, timeout=300):
    """run the harness concretely on the *uninstrumented* package in a separate, persistent
    plain interpreter (one per worker)"""
    payload = json.dumps(dict(property=pid, group=gname, params=_jsonable(params), env=env))
    for attempt in (0, 1):
        sv = _get_server()
        try:
            sv.stdin.write(payload + '\n')
            sv.stdin.flush()
            while True:
                line = sv.stdout.readline()
                if not line:
                    raise IOError('replay server died')
                if line.startswith('REPLAY-RESULT '):
                    return json.loads(line[len('REPLAY-RESULT '):])
        except Exception as e:
            try:
                sv.kill()
            except Exception:
                pass
            _server[0] = None
            if attempt:
                return dict(error='replay failed: %r' % (e,))


def _worker(args):
    pid, gi, tier, seed = args
    t0 = time.time()
    if os.environ.get('SYMX_STACK_EVERY'):      # debugging aid: dump the worker's Python stack periodically
        import faulthandler
        faulthandler.dump_traceback_later(int(os.environ['SYMX_STACK_EVERY']), repeat=True, file=sys.stderr)
    from . import loader
    loader.install()
    from . import sched, expr as X
    mod = _load_check(pid)
    if getattr(mod, 'USES_STRINGS', False):
        from . import symstr
        symstr.install()
    groups = mod.groups(tier)
    g = groups[gi]
    name = g['name']
    res = dict(group=name, paths=0, obligations=0, discharged=0, vacuous=0, violations=[], inconclusive=[],
               errors=[], queries=0, solver_s=0.0, samples=[], nontrivial=0, validated=0, notes=[],
               params=_jsonable(g.get('params', {})))
    try:
        from . import encode as _enc
        _enc.DEFAULT_QV[0] = bool(g.get('quotient_vars', False))
        ex = sched.Explorer(g['harness'], g.get('params', {}), max_paths=g.get('max_paths', 400),
                            branch_timeout_ms=g.get('branch_timeout_ms', 5000), remote_feasibility=g.get('remote_feasibility', False))
        paths = ex.explore()
        if ex.client is not None:
            ex.client.close()
        res['paths'] = len(paths)
        res['queries'] += ex.queries
        res['solver_s'] += ex.solver_time
        if ex.truncated:
            res['inconclusive'].append(dict(label='*', why='path/depth cap reached'))
        timeout_ms = g.get('timeout_ms', 30000 if tier == 'quick' else 300000)
        cross = int(os.environ.get('VERIF_CROSS', '12' if tier == 'thorough' else '0'))
        pv = sched.Prover(timeout_ms, cross_budget=cross)
        reached = False
        rnd = random.Random(seed * 1000003 + gi)
        labels_seen = set()
        for pi, pr in enumerate(paths):
            if len(res['violations']) >= 6:
                res['notes'].append('stopped after 6 reproduced violations in this group (remaining paths not examined)')
                break
            if pr.exc is not None:
                kind, msg, tb = pr.exc
                if kind == 'Escape':
                    res['errors'].append(dict(path=pi, error='Escape: ' + msg, tb=tb[-1500:]))
                    continue
                # unexpected exception on a path: violation iff path feasible and reproduces
                from .encode import Encoder
                import z3
                enc = Encoder(list(pr.assumptions) + list(pr.pc), group=True)
                s = z3.Solver()
                s.set('timeout', timeout_ms)
                zs = [enc.boolean(a) for a in pr.assumptions] + [enc.boolean(c) for c in pr.pc]
                for z in zs + enc.cons:
                    s.add(z)
                r = str(s.check())
                res['queries'] += 1
                if r == 'unsat':
                    continue
                label = 'no-exception[%s]' % kind
                res['obligations'] += 1
                res['nontrivial'] += 1
                if r == 'sat':
                    env = sched.model_env(s.model(), enc, pr.inputs)
                    rp = replay_concrete(pid, name, g.get('params', {}), env)
                    if rp.get('exception') and rp['exception'][0] == kind:
                        res['violations'].append(dict(label=label, env=env, detail='%s: %s' % (kind, msg), path=pi,
                                                      replay=rp))
                    else:
                        res['inconclusive'].append(dict(label=label, why='exception on symbolic path did not reproduce: %s: %s' % (kind, msg), tb=tb[-1200:], replay=rp))
                else:
                    res['inconclusive'].append(dict(label=label, why='path feasibility unknown; %s: %s' % (kind, msg)))
                continue
            if not pr.goals:
                continue
            out, status = pv.prove_path(pr)
            if status == 'infeasible':
                res['vacuous'] += len(out)
                continue
            reached = True
            if status.startswith('side:'):
                # definedness obligation not proved: try to reproduce as a crash / nan
                for txt, r1, env in pv.last_side_bad:
                    res['inconclusive'].append(dict(label='definedness', why='%s [%s]' % (txt, r1), env=env, path=pi))
            for gl, rec in zip(pr.goals, out):
                res['obligations'] += 1
                if rec.get('t', 0) > 2.0:
                    res['notes'].append('slow: path %d %s %.1fs %s' % (pi, gl.label, rec['t'], rec['verdict']))
                if gl.cond is not X.TRUE:
                    res['nontrivial'] += 1
                v = rec['verdict']
                if v == 'unsat':
                    res['discharged'] += 1
                elif v == 'sat':
                    env = rec['env']
                    rp = replay_concrete(pid, name, g.get('params', {}), env)
                    bad = [x for x in rp.get('results', []) if x[0] == gl.label and not x[1]]
                    tried = [env]
                    if not bad and not rp.get('exception'):
                        # abstraction artefact?  try random points on this path
                        for _ in range(6):
                            env2 = sched.sample_env(pr.inputs, list(pr.assumptions) + list(pr.pc), rnd)
                            if env2 is None:
                                break
                            rp2 = replay_concrete(pid, name, g.get('params', {}), env2)
                            bad = [x for x in rp2.get('results', []) if x[0] == gl.label and not x[1]]
                            tried.append(env2)
                            if bad:
                                env, rp = env2, rp2
                                break
                    if bad:
                        res['violations'].append(dict(label=gl.label, env=env, detail='lhs=%r rhs=%r' % (bad[0][2], bad[0][3]),
                                                      path=pi, info=gl.info))
                    elif rp.get('exception'):
                        res['inconclusive'].append(dict(label=gl.label, why='sat; replay raised %r' % (rp['exception'],), env=env))
                    else:
                        res['inconclusive'].append(dict(label=gl.label, why='sat model did not reproduce on the real code (abstraction artefact?)', env=env, replay=_jsonable(rp)))
                else:
                    res['inconclusive'].append(dict(label=gl.label, why='solver: ' + v, path=pi))
            # translator validation on this path
            try:
                nval, mism = _validate(g, pr, rnd)
                res['validated'] += nval
                for m in mism:
                    res['errors'].append(dict(path=pi, error='translator validation mismatch: %s' % (m,)))
            except Exception as e:
                res['errors'].append(dict(path=pi, error='validation crashed: %r' % (e,), tb=traceback.format_exc()[-1500:]))
        res['queries'] += pv.queries
        res['solver_s'] += pv.solver_time
        from . import proxy as _px
        if _px._hashed[0]:
            res['notes'].append('ASSUMPTION symbolic values served as dictionary keys: compared among themselves by forking on equality; '
                                'a symbolic key is taken to differ from every concrete key of the same dictionary')
            res['sym_hash'] = True
        res['cross'] = pv.cross
        for dz in pv.cross_disagreements:
            if dz.get('fatal'):
                res['errors'].append(dict(error='solver disagreement on %r: z3 %s, cvc5 %s' % (dz['label'], dz['z3'], dz['cvc5']), tb=dz.get('smt2')))
            else:
                res['notes'].append('cvc5 could not read an obligation (%s): %s' % (dz['label'], dz['cvc5']))
        if pv.cross_client is not None:
            pv.cross_client.close()
        if pv.client is not None:
            if pv.client.restarts:
                res['notes'].append('solver process killed and restarted %d time(s) on hard timeouts' % pv.client.restarts)
            pv.client.close()
        res['notes'] += ['slow query: ' + x for x in pv.slow[:12]]
        res['notes'].append('explore: %d queries %.1fs; prove: %d queries %.1fs' % (ex.queries, ex.solver_time, pv.queries, pv.solver_time))
        res['samples'] = pv.samples[:2]
        if paths and not reached and not res['violations'] and not res['inconclusive'] and not res['errors']:
            if not g.get('allow_unreached'):
                res['errors'].append(dict(error='vacuous group: no feasible path reached an obligation'))
        if not paths:
            res['errors'].append(dict(error='no path completed'))
    except BaseException as e:
        res['errors'].append(dict(error='worker crashed: %r' % (e,), tb=traceback.format_exc()[-3000:]))
    res['wall_s'] = time.time() - t0
    return res


def _cross_summary(results):
    tot = dict(asked=0, agree=0, unknown=0, disagree=0, errors=0, time_s=0.0)
    for r in results:
        for k, v in (r.get('cross') or {}).items():
            tot[k] = tot.get(k, 0) + v
    tot['time_s'] = round(tot['time_s'], 2)
    tot['solver'] = 'cvc5 (python wheel), 10 s per obligation; a deterministic sample of decided non-trivial goals per group'
    tot['rule'] = ('agree = same verdict as z3 on the identical SMT-LIB text; unknown = cvc5 timeout/unknown (counts for nothing); '
                   'disagree = opposite verdicts -> harness error, exit 2')
    return tot


def _validate(g, pr, rnd, k=2):
    """evaluate the traced terms at random in-bound points and compare with a plain-float
    execution of the same harness"""
    from . import sched, expr as X
    n = 0
    mism = []
    if g.get('no_validate'):
        return 0, []
    eqs = [gl for gl in pr.goals if gl.kind == 'eq']
    if not eqs:
        return 0, []
    for _ in range(k):
        env = sched.sample_env(pr.inputs, list(pr.assumptions) + list(pr.pc), rnd, tries=60, hints=getattr(pr, 'hints', None))
        if env is None:
            return n, mism
        cc = sched.ConcCtx(env)
        try:
            import warnings
            with warnings.catch_warnings():
                warnings.simplefilter('ignore')
                g['harness'](cc, **g.get('params', {}))
        except sched.Infeasible:
            continue
        except (OverflowError, FloatingPointError):
            continue            # sample point outside double range: not a translator issue
        except Exception as e:
            mism.append('concrete run raised %r at %r' % (e, env))
            continue
        byl = {}
        for r in cc.results:
            byl.setdefault(r[0], r)
        for gl in eqs:
            r = byl.get(gl.label)
            if r is None:
                mism.append('label %s missing in concrete run' % gl.label)
                continue
            try:
                tl = X.ev(gl.lhs, env, 'float')
                tr = X.ev(gl.rhs, env, 'float')
            except X.EvalError:
                continue
            for tv, cv, side in ((tl, r[2], 'lhs'), (tr, r[3], 'rhs')):
                tol = 2e-5 if gl.info == 'deriv' else 1e-8
                if abs(tv - cv) > tol * max(1.0, abs(tv), abs(cv)):
                    mism.append('%s %s: term=%r concrete=%r env=%r' % (gl.label, side, tv, cv, env))
            n += 1
    return n, mism


# ----------------------------------------------------------------------------------------
def _group_budget(g, tier):
    """hard wall-clock budget of one obligation group (the worker process is killed beyond it)"""
    return g.get('budget_s', 900 if tier == 'quick' else 3600)


def run_groups(jobs, groups, njobs, tier, show):
    """one forked process per obligation group, at most njobs at a time, each under a hard
    wall-clock budget; a killed group is reported inconclusive (exit 2), never as a pass"""
    import pickle
    import select
    pending = list(jobs)
    running = {}
    results = []
    while pending or running:
        while pending and len(running) < njobs:
            job = pending.pop(0)
            r, w = os.pipe()
            sys.stdout.flush()
            pid = os.fork()
            if pid == 0:
                code = 0
                try:
                    os.close(r)
                    res = _worker(job)
                    data = pickle.dumps(res)
                    view = memoryview(data)
                    while len(view):
                        n = os.write(w, view[:65536])
                        view = view[n:]
                except BaseException:
                    code = 3
                    traceback.print_exc()
                finally:
                    sv = _server[0]
                    if sv is not None:
                        try:
                            sv.kill()
                        except Exception:
                            pass
                    os._exit(code)
            os.close(w)
            running[pid] = dict(job=job, fd=r, t0=time.time(), buf=[])
        fds = {st['fd']: pid for pid, st in running.items()}
        rl, _, _ = select.select(list(fds), [], [], 0.5)
        done = []
        for fd in rl:
            pid = fds[fd]
            chunk = os.read(fd, 1 << 20)
            if chunk:
                running[pid]['buf'].append(chunk)
            else:
                done.append(pid)
        now = time.time()
        for pid, st in list(running.items()):
            g = groups[st['job'][1]]
            if pid in done:
                os.close(st['fd'])
                _, status = os.waitpid(pid, 0)
                try:
                    res = pickle.loads(b''.join(st['buf']))
                except Exception as e:
                    res = _dead_result(g, 'worker died without a result (wait status %d, %d bytes received, %r)' % (status, sum(map(len, st['buf'])), e), now - st['t0'])
                results.append(res)
                show(res)
                del running[pid]
            elif now - st['t0'] > _group_budget(g, tier):
                try:
                    os.kill(pid, 9)
                except OSError:
                    pass
                os.close(st['fd'])
                os.waitpid(pid, 0)
                res = _dead_result(g, 'group exceeded its wall-clock budget of %ds and was killed' % _group_budget(g, tier), now - st['t0'])
                results.append(res)
                show(res)
                del running[pid]
    return results


def _dead_result(g, why, wall):
    return dict(group=g['name'], paths=0, obligations=0, discharged=0, vacuous=0, violations=[],
                inconclusive=[dict(label='*', why=why)], errors=[], queries=0, solver_s=0.0, samples=[], nontrivial=0,
                validated=0, notes=[], params=_jsonable(g.get('params', {})), wall_s=wall)


def load_known(pid):
    p = os.path.join(VERIF, 'known_findings.json')
    if not os.path.exists(p):
        return []
    with open(p) as f:
        data = json.load(f)
    return [e for e in data.get('findings', []) if e.get('property') == pid]


def match_known(known, gname, label):
    for e in known:
        if e.get('status') != 'known':
            continue
        if fnmatch.fnmatchcase(gname, e.get('group', '*')) and fnmatch.fnmatchcase(label, e.get('label', '*')):
            return e
    return None


def main(argv=None):
    import argparse
    ap = argparse.ArgumentParser()
    ap.add_argument('property')
    ap.add_argument('--tier', default=os.environ.get('VERIF_TIER', 'quick'))
    ap.add_argument('--only', default=None, help='fnmatch pattern on group names')
    ap.add_argument('--jobs', type=int, default=int(os.environ.get('VERIF_JOBS', '16')))
    ap.add_argument('-v', action='store_true')
    a = ap.parse_args(argv)
    pid = a.property.upper()
    tier = a.tier if a.tier in ('quick', 'thorough') else 'quick'
    seed = int(os.environ.get('VERIF_SEED', '0') or 0)
    t0 = time.time()

    from . import loader
    loader.install()
    mod = _load_check(pid)
    if getattr(mod, 'USES_STRINGS', False):
        from . import symstr
        symstr.install()
    groups = mod.groups(tier)
    idx = [i for i, g in enumerate(groups) if a.only is None or fnmatch.fnmatchcase(g['name'], a.only)]
    names = [groups[i]['name'] for i in idx]
    assert len(set(names)) == len(names), 'duplicate group names'
    jobs = [(pid, i, tier, seed) for i in idx]
    def show(r):
        if a.v:
            print('  [%s] paths=%d obl=%d ok=%d viol=%d inc=%d err=%d %.1fs' % (
                r['group'], r['paths'], r['obligations'], r['discharged'], len(r['violations']),
                len(r['inconclusive']), len(r['errors']), r['wall_s']), flush=True)
    results = run_groups(jobs, groups, max(1, a.jobs), tier, show)
    results.sort(key=lambda r: names.index(r['group']))

    known = load_known(pid)
    nviol = 0
    nknown = 0
    known_lines = []
    viol_lines = []
    os.makedirs(os.path.join(VERIF, 'replays', pid), exist_ok=True)
    seen_v = {}
    for r in results:
        for v in r['violations']:
            e = match_known(known, r['group'], v['label'])
            if e is not None:
                nknown += 1
                key = (e.get('id') or e.get('what'))
                if key not in [k for k, _ in known_lines]:
                    known_lines.append((key, 'KNOWN-FINDING: property=%s %s [first seen at %s :: %s]' % (pid, e.get('what'), r['group'], v['label'])))
                v['known'] = e.get('id') or True
                continue
            nviol += 1
            k2 = (r['group'], v['label'])
            seen_v[k2] = seen_v.get(k2, 0) + 1
            if seen_v[k2] > 1:
                continue
            body = dict(property=pid, group=r['group'], params=r['params'], env=v['env'], label=v['label'],
                        detail=v.get('detail'))
            h = hashlib.sha1(json.dumps(body, sort_keys=True).encode()).hexdigest()[:12]
            path = os.path.join(VERIF, 'replays', pid, h + '.json')
            with open(path, 'w') as f:
                json.dump(body, f, indent=1)
            if len(viol_lines) < int(os.environ.get('VERIF_MAX_VIOL_LINES', '25')):
                viol_lines.append('VIOLATION property=%s replay=%s' % (pid, path))
                print('  violated: group=%s obligation=%s %s env=%s' % (r['group'], v['label'], v.get('detail'), json.dumps(v['env'])[:400]))
    if len(seen_v) > int(os.environ.get('VERIF_MAX_VIOL_LINES', '25')):
        print('  ... and %d more violated (group, obligation) pairs' % (len(seen_v) - 25))
    for _, line in known_lines:
        print(line)
    for line in viol_lines:
        print(line)
    ninc = sum(len(r['inconclusive']) for r in results)
    nerr = sum(len(r['errors']) for r in results)
    for r in results:
        for x in r['inconclusive']:
            print('  INCONCLUSIVE group=%s %s: %s' % (r['group'], x.get('label'), x.get('why')))
            if a.v and x.get('env') is not None:
                print('    env=%s replay=%s' % (json.dumps(x.get('env'))[:600], json.dumps(x.get('replay'), default=str)[:1200]))
        if a.v:
            for nt in r['notes']:
                print('  note group=%s %s' % (r['group'], nt))
        for x in r['errors']:
            print('  HARNESS-ERROR group=%s: %s' % (r['group'], x.get('error')))
            if a.v and x.get('tb'):
                print(x['tb'])

    obligations = sum(r['obligations'] for r in results)
    discharged = sum(r['discharged'] for r in results)
    meta = getattr(mod, 'META', {})
    samples = []
    for r in results:
        for s in r['samples']:
            if len(samples) < 4:
                samples.append(dict(group=r['group'], **s))
    if not samples:
        samples = [dict(group=r['group'], note='no unsat sample recorded') for r in results[:1]]
    wall = time.time() - t0
    ev = dict(
        property_id=pid, tier=tier, seed=seed, level='other',
        coverage=dict(
            explanation=('bounded symbolic verification: the real pMuTT functions are executed on proxy values from /repo\'s '
                         'current source, every feasible path is enumerated by the scheduler with z3 feasibility queries, and each '
                         'obligation is decided by z3 (unsat = holds for every input in the stated bounds over exact real arithmetic). '
                         'sat models are replayed on the uninstrumented package before being reported.'),
            obligations=obligations, discharged=discharged,
            known_finding_obligations=nknown,
            violations=nviol, inconclusive=ninc, harness_errors=nerr,
            vacuous_on_infeasible_paths=sum(r['vacuous'] for r in results),
            evaluations=sum(r['queries'] for r in results),
            distinct_nontrivial=sum(r['nontrivial'] for r in results),
            rule=('evaluations = SMT queries issued (branch feasibility, reachability twins, definedness, goals); '
                  'distinct_nontrivial = obligations (one per label per feasible path per group) whose goal term is not '
                  'syntactically true before solving'),
            paths=sum(r['paths'] for r in results),
            groups=len(results),
            translator_validation_points=sum(r['validated'] for r in results),
            solver_time_s=round(sum(r['solver_s'] for r in results), 3),
            second_solver=_cross_summary(results),
            functions_encoded=meta.get('functions', []),
            bounds=meta.get('bounds', {}).get(tier, meta.get('bounds', {})),
            outside_claim=meta.get('outside_claim', []),
            stubs=meta.get('stubs', []),
            source_files=sorted(set(os.path.relpath(p, loader.REPO) for p in loader.loaded_files))[:60],
            per_group=[dict(group=r['group'], paths=r['paths'], obligations=r['obligations'], discharged=r['discharged'],
                            violations=len(r['violations']), inconclusive=len(r['inconclusive']), wall_s=round(r['wall_s'], 2))
                       for r in results],
            samples=samples,
            checker_cmd='z3 %s (python API) via /verif/bin/vcheck %s --tier %s' % (_z3v(), pid, tier),
            trusted_base=['z3', 'symx translator (validated per run against float execution)', 'CPython', 'NumPy object arrays'],
        ),
        assumptions=meta.get('assumptions', []) + ['floats modelled as exact reals; IEEE rounding/overflow/NaN outside the claim'] + (
            ['symbolic values served as dictionary keys in group(s) %s: compared among themselves by forking on equality; a symbolic key is '
             'taken to differ from every concrete key of the same dictionary' % ', '.join(r['group'] for r in results if r.get('sym_hash'))]
            if any(r.get('sym_hash') for r in results) else []),
        wall_s=round(wall, 2), violations=nviol,
    )
    evdir = os.environ.get('VERIF_EVIDENCE_DIR') or os.path.join(VERIF, 'evidence')
    os.makedirs(evdir, exist_ok=True)
    if a.only is None:
        with open(os.path.join(evdir, pid + '.json'), 'w') as f:
            json.dump(_jsonable(ev), f, indent=1)
    print('%s tier=%s groups=%d paths=%d obligations=%d discharged=%d known=%d violations=%d inconclusive=%d errors=%d queries=%d wall=%.1fs' % (
        pid, tier, len(results), ev['coverage']['paths'], obligations, discharged, nknown, nviol, ninc, nerr,
        ev['coverage']['evaluations'], wall))
    if nviol:
        return 1
    if ninc or nerr:
        return 2
    return 0


def _z3v():
    import z3
    return z3.get_version_string()


if __name__ == '__main__':
    sys.exit(main())
