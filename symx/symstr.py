"""Symbolic strings for the string-processing kernels of pMuTT.

A SymStr is a tuple of cells:
  * str of length 1        - a concrete character
  * Sym (sort I)           - a symbolic character (its code point); callers constrain it to an alphabet
  * Tok                    - a formatted number kept as a unit: format spec + value term (+ width)
The number of cells is concrete per configuration; contents are symbolic.  Every decision a real
str method makes on a symbolic character becomes a solver-decided fork (proxy __bool__), so the
real pMuTT code runs unchanged and each path corresponds to one class of strings.
"""
import string as _string
import numpy as np
from . import expr as X
from .proxy import Sym, Escape, lift

TOKEN_ALPHABET = set('0123456789+-.eEinfa ')     # characters a formatted number can contain


class Tok:
    __slots__ = ('spec', 'val', 'width', 'text')

    def __init__(self, spec, val, width=None):
        self.spec = spec
        self.val = val          # Sym (real or int) or a concrete number
        self.width = width      # int when the spec fixes it, else None

    def __repr__(self):
        return '<tok %s %r>' % (self.spec, self.val)


class Blob:
    """an opaque run of non-blank characters whose only observable property is its (symbolic) length"""
    __slots__ = ('length', 'name')

    def __init__(self, name, length):
        self.name = name
        self.length = length

    def __repr__(self):
        return '<blob %s>' % self.name


def tok_length(t):
    """length of a formatted number.  Fixed by the spec when possible; otherwise decided by forking on
    the magnitude class of the value (each class is a path), so the result is a concrete int."""
    if t.width is not None:
        return t.width
    spec = t.spec or ''
    pct = spec.startswith('%')
    m = _SPEC.match(spec) if not pct else None
    v = t.val
    if pct:
        mm = _re.match(r'%(?P<flags>[-+ #0]*)(?P<width>\d+)?(?:\.(?P<prec>\d+))?(?P<type>[dif])$', spec)
        if not mm or mm.group('flags'):
            return None
        typ = 'd' if mm.group('type') in 'di' else 'f'
        w = int(mm.group('width')) if mm.group('width') else 0
        prec = int(mm.group('prec')) if mm.group('prec') else 6
    elif spec in ('str', 'r') and isinstance(v, Sym) and v.e.sort == 'I':
        typ, w, prec = 'd', 0, 0
    elif m and m.group('type') in ('d', 'f') and not m.group('sign') and not m.group('grp'):
        typ = m.group('type')
        w = int(m.group('width')) if m.group('width') else 0
        prec = int(m.group('prec')) if m.group('prec') else 6
    else:
        return None
    if not isinstance(v, Sym):
        return len((spec % v) if pct else format(v, spec if spec not in ('str', 'r') else ''))
    neg = 1 if bool(v < 0) else 0
    a = -v if neg else v
    if typ == 'd':
        nd = 1
        while nd < 18 and not bool(a < 10 ** nd):
            nd += 1
        return max(w, nd + neg)
    # fixed point: the integer part grows when the value rounds up to the next power of ten
    from fractions import Fraction
    half = Fraction(1, 2) / Fraction(10) ** prec
    nd = 1
    while nd < 18 and not bool(a < Fraction(10) ** nd - half):
        nd += 1
    return max(w, nd + neg + (1 + prec if prec else 0))


def _is_cell(c):
    return isinstance(c, (Sym, Tok)) or (isinstance(c, str) and len(c) == 1)


class SymStr:
    __slots__ = ('cells',)

    def __init__(self, cells=()):
        out = []
        for c in cells:
            if isinstance(c, SymStr):
                out.extend(c.cells)
            elif isinstance(c, str) and len(c) != 1:
                out.extend(c)
            else:
                out.append(c)
        self.cells = tuple(out)

    # ------------------------------------------------------------------ basics
    @staticmethod
    def of(x):
        if isinstance(x, SymStr):
            return x
        if isinstance(x, str):
            return SymStr(x)
        raise TypeError('cannot make a SymStr from %r' % type(x))

    def is_concrete(self):
        return all(isinstance(c, str) for c in self.cells)

    def concrete(self):
        if not self.is_concrete():
            raise Escape('symbolic string used where a concrete str is required')
        return ''.join(self.cells)

    def _widths(self):
        w = []
        for c in self.cells:
            w.append(self._cw(c))
        return w

    @staticmethod
    def _cw(c):
        if isinstance(c, Tok):
            L = tok_length(c)
            if L is None:
                raise Escape('length of a formatted number of unknown width (spec %r)' % c.spec)
            c.width = L if not isinstance(L, Sym) else None
            return L
        if isinstance(c, Blob):
            raise Escape('concrete length of a symbolic-length run')
        return 1

    def __len__(self):
        return sum(self._widths())

    def __symlen__(self):
        """len() that may be symbolic (instrumented modules call this through the `len` shadow)"""
        tot = 0
        for c in self.cells:
            if isinstance(c, Blob):
                tot = tot + c.length
            elif isinstance(c, Tok):
                L = tok_length(c)
                if L is None:
                    raise Escape('length of a formatted number of unknown width')
                tot = tot + L
            else:
                tot = tot + 1
        return tot

    def __bool__(self):
        return len(self.cells) > 0

    def __repr__(self):
        return '<symstr %s>' % ''.join(c if isinstance(c, str) else ('?' if isinstance(c, Sym) else '#') for c in self.cells)

    __str__ = __repr__

    def __format__(self, spec):
        raise Escape('SymStr formatted outside the instrumented formatter')

    def __hash__(self):
        # a string without symbolic characters is the same dictionary key as the str it spells; strings with symbolic
        # characters share a bucket per length and are told apart by == (a solver-decided fork); against concrete str keys
        # they never match, which is recorded as an assumption of the run (see proxy.Sym.__hash__)
        if self.is_concrete():
            return hash(''.join(self.cells))
        from . import proxy as _px
        _px._hashed[0] = True
        return hash(('symstr', len(self.cells)))

    def __iter__(self):
        for c in self.cells:
            if isinstance(c, Tok):
                raise Escape('iteration over the characters of a formatted number')
            yield SymStr((c,))

    def __add__(self, o):
        if isinstance(o, (str, SymStr)):
            return SymStr(self.cells + SymStr.of(o).cells)
        return NotImplemented

    def __radd__(self, o):
        if isinstance(o, str):
            return SymStr(tuple(o) + self.cells)
        return NotImplemented

    def __mul__(self, n):
        return SymStr(self.cells * int(n))

    __rmul__ = __mul__

    # ------------------------------------------------------------------ positions
    def _cell_span(self):
        """[(start, end, cell)] in character positions"""
        out, p = [], 0
        for c, w in zip(self.cells, self._widths()):
            out.append((p, p + w, c))
            p += w
        return out

    def _bound(self, idx, default):
        """character index -> cell index, walking only the cells between the index and the nearer end"""
        if idx is None:
            return default
        n = len(self.cells)
        if idx >= 0:
            p = 0
            for i in range(n):
                if p == idx:
                    return i
                w = self._cw(self.cells[i])
                if p < idx < p + w:
                    if self._explode(i):
                        return self._bound(idx, default)
                    raise Escape('slice boundary %d inside a formatted number' % idx)
                p += w
            return n
        p = 0
        for i in range(n - 1, -1, -1):
            w = self._cw(self.cells[i])
            if p + w > -idx and p < -idx:
                if self._explode(i):
                    return self._bound(idx, default)
                raise Escape('slice boundary %d inside a formatted number' % idx)
            p += w
            if p == -idx:
                return i
        return 0

    def _explode(self, i):
        """replace the integer token at cell i by its decimal digits (fresh symbolic digit characters tied to the value by
        value = sum d_k 10^k, no leading zero): needed when fixed-column code cuts through a printed integer"""
        cells = explode_int_token(self.cells[i])
        if cells is None:
            return False
        self.cells = self.cells[:i] + tuple(cells) + self.cells[i + 1:]
        return True

    def __getitem__(self, k):
        if isinstance(k, Sym):
            raise Escape('symbolic index into a string')
        if isinstance(k, slice):
            if k.step not in (None, 1):
                if k.step == -1 and k.start is None and k.stop is None and all(not isinstance(c, (Tok, Blob)) for c in self.cells):
                    return SymStr(self.cells[::-1])
                raise Escape('string slice with a step')
            cs = self._bound(k.start, 0)
            ce = self._bound(k.stop, len(self.cells))
            return SymStr(self.cells[cs:ce])
        k = int(k)
        if k < 0:
            ci = self._bound(k, None)
        else:
            ci = self._bound(k, None)
            if ci >= len(self.cells):
                raise IndexError('string index out of range')
        c = self.cells[ci]
        if isinstance(c, (Tok, Blob)) and self._cw(c) != 1:
            raise Escape('index into a formatted number')
        return SymStr((c,))

    # ------------------------------------------------------------------ comparison
    def _eq_term(self, o):
        o = SymStr.of(o)
        if len(self.cells) != len(o.cells) or (len(self.cells) == 1 and isinstance(self.cells[0], Tok) != isinstance(o.cells[0], Tok)):
            # token widths could make different cell counts equal strings; only when tokens are involved
            if any(isinstance(c, Tok) for c in self.cells + o.cells):
                r = _int_token_vs_digits(self, o)
                if r is not None:
                    return r
                la, lb = self.__symlen__(), o.__symlen__()
                if isinstance(la, int) and isinstance(lb, int) and la != lb:
                    return False
                if len(self.cells) == len(o.cells):
                    return self._cellwise_eq(o)
                raise Escape('comparison of strings with formatted numbers of different structure: %r vs %r' % (self, o))
            return False
        return self._cellwise_eq(o)

    def _cellwise_eq(self, o):
        cond = True
        for a, b in zip(self.cells, o.cells):
            e = cell_eq(a, b)
            if e is False:
                return False
            if e is True:
                continue
            cond = e if cond is True else (cond & e)
        return cond

    def __eq__(self, o):
        if not isinstance(o, (str, SymStr)):
            return False
        return self._eq_term(o)

    def __ne__(self, o):
        r = self.__eq__(o)
        if isinstance(r, bool):
            return not r
        return ~r

    def _lex(self, o, strict_less):
        o = SymStr.of(o)
        for a, b in zip(self.cells, o.cells):
            if isinstance(a, Tok) or isinstance(b, Tok):
                raise Escape('ordering of strings containing formatted numbers')
            ca, cb = code(a), code(b)
            if bool(ca == cb):
                continue
            return bool(ca < cb)
        la, lb = len(self.cells), len(o.cells)
        return la < lb if strict_less else la <= lb

    def __lt__(self, o): return self._lex(o, True)
    def __le__(self, o): return self._lex(o, False)
    def __gt__(self, o): return SymStr.of(o)._lex(self, True)
    def __ge__(self, o): return SymStr.of(o)._lex(self, False)

    # ------------------------------------------------------------------ searching
    def _match_at(self, i, sub):
        """condition (bool or Sym) that sub's cells match self's cells starting at cell i"""
        cond = True
        for j, sc in enumerate(sub.cells):
            mine = self.cells[i + j]
            if isinstance(mine, Tok) and isinstance(sc, str) and sc.isalpha() and len(sub.cells) > 1:
                # a letter of a longer pattern facing a formatted number: numbers neither start nor end with a
                # letter, so the letter would sit strictly inside the number's text and both its pattern
                # neighbours would have to match number characters too
                alpha = tok_alphabet(mine)
                nb = [sub.cells[k] for k in (j - 1, j + 1) if 0 <= k < len(sub.cells)]
                if any(isinstance(x, str) and x not in alpha for x in nb):
                    return False
            e = cell_eq(mine, sc)
            if e is False:
                return False
            if e is True:
                continue
            cond = e if cond is True else (cond & e)
        return cond

    def _find_cell(self, sub, start_cell=0, end_cell=None, reverse=False):
        sub = SymStr.of(sub)
        n, m = len(self.cells), len(sub.cells)
        end_cell = n if end_cell is None else end_cell
        if m == 0:
            return start_cell if not reverse else end_cell
        rng = range(start_cell, end_cell - m + 1)
        if reverse:
            rng = reversed(rng)
        for i in rng:
            c = self._match_at(i, sub)
            if c is False:
                continue
            if c is True or bool(c):
                return i
        return -1

    def _cell_to_pos(self, ci):
        if ci < 0:
            return ci
        return sum(self._widths()[:ci])

    def _pos_to_cell(self, pos):
        if pos is None:
            return None
        n = len(self)
        if pos < 0:
            pos = max(0, pos + n)
        pos = min(pos, n)
        p = 0
        for i, w in enumerate(self._widths()):
            if p == pos:
                return i
            if p < pos < p + w:
                raise Escape('position inside a formatted number')
            p += w
        return len(self.cells)

    def find(self, sub, start=None, end=None):
        return self._cell_to_pos(self._find_cell(sub, self._pos_to_cell(start) or 0, self._pos_to_cell(end)))

    def rfind(self, sub, start=None, end=None):
        return self._cell_to_pos(self._find_cell(sub, self._pos_to_cell(start) or 0, self._pos_to_cell(end), reverse=True))

    def index(self, sub, *a):
        r = self.find(sub, *a)
        if r < 0:
            raise ValueError('substring not found')
        return r

    def rindex(self, sub, *a):
        r = self.rfind(sub, *a)
        if r < 0:
            raise ValueError('substring not found')
        return r

    def __getattr__(self, name):
        # a str method this model does not implement: refuse (harness error), never an AttributeError of the code under test
        if hasattr(str, name) and not name.startswith('__'):
            raise Escape('str.%s is not modelled on symbolic strings' % name)
        raise AttributeError(name)

    def __contains__(self, sub):
        if not isinstance(sub, (str, SymStr)):
            raise TypeError('in <string> requires string as left operand')
        return self._find_cell(sub) >= 0

    def count(self, sub):
        sub = SymStr.of(sub)
        k, i = 0, 0
        while True:
            j = self._find_cell(sub, i)
            if j < 0:
                return k
            k += 1
            i = j + max(1, len(sub.cells))

    def startswith(self, p, *a):
        if isinstance(p, tuple):
            return any(self.startswith(x) for x in p)
        p = SymStr.of(p)
        if len(p.cells) > len(self.cells):
            return False
        c = self._match_at(0, p)
        return c if isinstance(c, bool) else bool(c)

    def endswith(self, p, *a):
        if isinstance(p, tuple):
            return any(self.endswith(x) for x in p)
        p = SymStr.of(p)
        if len(p.cells) > len(self.cells):
            return False
        c = self._match_at(len(self.cells) - len(p.cells), p)
        return c if isinstance(c, bool) else bool(c)

    # ------------------------------------------------------------------ splitting / trimming
    def split(self, sep=None, maxsplit=-1):
        if sep is None:
            parts, cur = [], []
            for c in self.cells:
                if is_space(c):
                    if cur:
                        parts.append(SymStr(cur))
                        cur = []
                else:
                    cur.append(c)
            if cur:
                parts.append(SymStr(cur))
            return parts
        sep = SymStr.of(sep)
        if not sep.cells:
            raise ValueError('empty separator')
        parts, i, k = [], 0, 0
        while maxsplit < 0 or k < maxsplit:
            j = self._find_cell(sep, i)
            if j < 0:
                break
            parts.append(SymStr(self.cells[i:j]))
            i = j + len(sep.cells)
            k += 1
        parts.append(SymStr(self.cells[i:]))
        return parts

    def rsplit(self, sep=None, maxsplit=-1):
        if sep is not None:
            if maxsplit < 0:
                return self.split(sep)
            raise Escape('str.rsplit with a separator and maxsplit is not modelled on symbolic strings')
        if maxsplit < 0:
            return self.split()
        # whitespace runs, from the right, at most maxsplit cuts; the remainder keeps its inner blanks (right-stripped)
        parts, cur, i = [], [], len(self.cells) - 1
        while i >= 0 and is_space(self.cells[i]):
            i -= 1
        while i >= 0 and len(parts) < maxsplit:
            if is_space(self.cells[i]):
                parts.append(SymStr(cur[::-1]))
                cur = []
                while i >= 0 and is_space(self.cells[i]):
                    i -= 1
            else:
                cur.append(self.cells[i])
                i -= 1
        if cur:
            # ran out of characters inside a field
            parts.append(SymStr(cur[::-1]))
            return parts[::-1]
        if i >= 0:
            parts.append(SymStr(self.cells[:i + 1]))
        return parts[::-1]

    def splitlines(self, keepends=False):
        parts, cur = [], []
        for c in self.cells:
            if not isinstance(c, Tok) and cell_eq(c, '\n') is True:
                parts.append(SymStr(cur + ([c] if keepends else [])))
                cur = []
            else:
                if isinstance(c, Sym) and bool(c == 10):
                    raise Escape('symbolic newline')
                cur.append(c)
        if cur:
            parts.append(SymStr(cur))
        return parts

    def _strip_set(self, chars):
        if chars is None:
            return is_space
        cs = SymStr.of(chars).cells          # the characters to strip may themselves be symbolic
        if any(isinstance(x, (Tok, Blob)) for x in cs):
            raise Escape('strip() with a formatted number among the characters to strip')
        may_hit_number = any((not isinstance(x, str)) or (x in TOKEN_ALPHABET and x != ' ') for x in cs)

        def pred(c):
            if isinstance(c, (Tok, Blob)):
                if isinstance(c, Tok) and may_hit_number:
                    # the characters to strip could be the outer characters of the printed number: not modelled
                    raise Escape('strip() of characters a formatted number may begin or end with')
                return False
            return any(_truth(cell_eq(c, x)) for x in cs)
        return pred

    def lstrip(self, chars=None):
        f = self._strip_set(chars)
        i = 0
        while i < len(self.cells) and f(self.cells[i]):
            i += 1
        return SymStr(self.cells[i:])

    def rstrip(self, chars=None):
        f = self._strip_set(chars)
        j = len(self.cells)
        while j > 0 and f(self.cells[j - 1]):
            j -= 1
        return SymStr(self.cells[:j])

    def strip(self, chars=None):
        return self.lstrip(chars).rstrip(chars)

    def replace(self, old, new, count=-1):
        old, new = SymStr.of(old), SymStr.of(new)
        if not old.cells:
            if not new.cells:
                return self
            raise Escape('replace of the empty string')
        out, i, k = [], 0, 0
        while count < 0 or k < count:
            j = self._find_cell(old, i)
            if j < 0:
                break
            out.extend(self.cells[i:j])
            out.extend(new.cells)
            i = j + len(old.cells)
            k += 1
        out.extend(self.cells[i:])
        return SymStr(out)

    def ljust(self, w, fill=' '):
        n = len(self)
        return self if n >= w else SymStr(self.cells + tuple(fill) * (w - n))

    def rjust(self, w, fill=' '):
        n = len(self)
        return self if n >= w else SymStr(tuple(fill) * (w - n) + self.cells)

    def zfill(self, w):
        return self.rjust(w, '0')

    def _map(self, f, lo, hi, delta):
        out = []
        for c in self.cells:
            if isinstance(c, str):
                out.append(f(c))
            elif isinstance(c, (Tok, Blob)):
                out.append(c)
            else:
                e = c.e
                inside = X.and_(X.le(X.iconst(lo), e), X.le(e, X.iconst(hi)))
                out.append(Sym(X.ite(inside, X.add(e, X.iconst(delta)), e)))
        return SymStr(out)

    def upper(self): return self._map(str.upper, 97, 122, -32)
    def lower(self): return self._map(str.lower, 65, 90, 32)

    def isdigit(self):
        return len(self.cells) > 0 and all(_truth(in_class(c, 'digit')) for c in self.cells)

    def isalpha(self):
        return len(self.cells) > 0 and all(_truth(in_class(c, 'alpha')) for c in self.cells)

    def isspace(self):
        return len(self.cells) > 0 and all(is_space(c) for c in self.cells)

    def join(self, items):
        out = []
        for i, it in enumerate(items):
            if i:
                out.extend(self.cells)
            out.extend(SymStr.of(it).cells)
        return SymStr(out)

    def format(self, *a, **kw):
        return format_string(self.concrete(), a, kw)

    # ------------------------------------------------------------------ numbers
    def __symint__(self, base=10):
        s = self.strip()
        cells = list(s.cells)
        if len(cells) == 1 and isinstance(cells[0], Tok):
            t = cells[0]
            if t.spec.endswith('d') or isinstance(t.val, int) or (isinstance(t.val, Sym) and t.val.e.sort == 'I'):
                return t.val
            raise ValueError('invalid literal for int(): formatted float')
        if any(isinstance(c, Tok) for c in cells):
            raise Escape('int() of text mixed with formatted numbers')
        sign = 1
        if cells and not isinstance(cells[0], Tok):
            if _truth(cell_eq(cells[0], '-')):
                sign, cells = -1, cells[1:]
            elif _truth(cell_eq(cells[0], '+')):
                cells = cells[1:]
        if not cells:
            raise ValueError('invalid literal for int()')
        val = 0
        prev_digit = False
        for i, c in enumerate(cells):
            if _truth(in_class(c, 'digit')):
                val = val * 10 + (code(c) - 48)
                prev_digit = True
            elif prev_digit and i + 1 < len(cells) and _truth(cell_eq(c, '_')):
                prev_digit = False
            else:
                raise ValueError('invalid literal for int() with base 10')
        if not prev_digit:
            raise ValueError('invalid literal for int() with base 10')
        return sign * val

    def __symfloat__(self):
        s = self.strip()
        cells = list(s.cells)
        if len(cells) == 1 and isinstance(cells[0], Tok):
            return cells[0].val
        if len(cells) == 2 and isinstance(cells[1], Tok) and not isinstance(cells[0], (Tok, Blob)):
            if _truth(cell_eq(cells[0], '-')):
                return -cells[1].val
            if _truth(cell_eq(cells[0], '+')):
                return cells[1].val
        if any(isinstance(c, Tok) for c in cells):
            raise ValueError('could not convert string to float (formatted number with extra text)')
        if all(isinstance(c, str) for c in cells):
            return float(''.join(cells))
        return parse_float_cells(cells)


_explode_count = [0]


def explode_int_token(t):
    """digit cells of a non-negative integer token printed without padding ('{}', '{:d}', str(n)); None if not applicable"""
    if not isinstance(t, Tok) or not isinstance(t.val, Sym) or t.val.e.sort != 'I':
        return None
    spec = t.spec or ''
    if spec not in ('', 'd', 'str', 'r', '%d', '%i'):
        return None
    from .proxy import _decide
    ex = getattr(_decide[0], '__self__', None)
    ctx = getattr(ex, 'ctx', None)
    if ctx is None:
        return None
    if bool(t.val < 0):
        return None
    w = tok_length(t)
    if not isinstance(w, int):
        return None
    # name by the value term so that re-executions create the same variables
    base = 'digits(%d)' % t.val.e.uid
    ds = []
    total = 0
    for k in range(w):
        d = ctx.int('%s.%d' % (base, k), 48, 57)
        ds.append(d)
        total = total * 10 + (d - 48)
    ctx.assume(total == t.val)
    if w > 1:
        ctx.assume(ds[0] > 48)
    return ds


def _int_token_vs_digits(a, b):
    """'{:0Wd}'.format(n) compared with a run of character cells: equal iff the run is exactly the
    zero-padded decimal spelling of n"""
    if len(a.cells) == 1 and isinstance(a.cells[0], Tok):
        tok, other = a.cells[0], b
    elif len(b.cells) == 1 and isinstance(b.cells[0], Tok):
        tok, other = b.cells[0], a
    else:
        return None
    m = _SPEC.match(tok.spec or '')
    if not m or m.group('type') != 'd' or m.group('sign') or m.group('grp') or any(isinstance(c, (Tok, Blob)) for c in other.cells):
        return None
    if m.group('width') and not m.group('zero') and int(m.group('width')) > 1:
        return None
    w = int(m.group('width')) if m.group('width') else 0
    cells = list(other.cells)
    L = len(cells)
    if L == 0:
        return False
    n = tok.val
    neg = False
    if _truth(cell_eq(cells[0], '-')):
        neg, cells = True, cells[1:]
        if not cells:
            return False
    val = 0
    for c in cells:
        if not _truth(in_class(c, 'digit')):
            return False
        val = val * 10 + (code(c) - 48)
    if L < w:
        return False
    if L > max(w, 1) and not neg:
        if _truth(cell_eq(cells[0], '0')):
            return False
    if neg:
        # '-001' is '{:04d}'.format(-1): total length w, digits zero padded
        if L > max(w, 2) and _truth(cell_eq(cells[0], '0')):
            return False
        if _truth(val == 0):
            return False
        return n == -val
    return n == val


def tok_alphabet(t):
    m = _SPEC.match(t.spec or '')
    typ = m.group('type') if m else None
    if t.spec.startswith('%'):
        typ = t.spec[-1]
    base = set('0123456789')
    if m and m.group('sign') == ' ':
        base |= {' '}
    if m and m.group('width') and not m.group('zero'):
        prec = int(m.group('prec')) if m.group('prec') else 6
        natural = {'e': 6 + prec, 'E': 6 + prec, 'f': 2 + prec, 'F': 2 + prec, 'd': 1}.get(typ, 1)
        if int(m.group('width')) > natural:
            base |= {' '}
    if m and m.group('sign') == '+':
        base |= {'+'}
    if typ in ('d', 'i'):
        return base | {'-'}
    if typ in ('f', 'F'):
        return base | set('-.infa')
    if typ in ('e', 'E', 'g', 'G'):
        return base | set('-+.eEinfa')
    if typ is None and not t.spec.startswith('%') and isinstance(t.val, Sym) and t.val.e.sort == 'I':
        return base | {'-'}
    return TOKEN_ALPHABET | base


def _truth(x):
    return x if isinstance(x, bool) else bool(x)


def code(c):
    return ord(c) if isinstance(c, str) else c


def cell_eq(a, b):
    """bool or Sym bool"""
    if isinstance(a, Blob) or isinstance(b, Blob):
        if a is b:
            return True
        other = b if isinstance(a, Blob) else a
        if isinstance(other, Blob):
            raise Escape('comparison of two symbolic-length runs')
        if isinstance(other, str) and other in ' "\n\t':
            return False           # runs contain no blanks or quotes by construction
        if isinstance(other, Tok):
            return False
        raise Escape('comparison of a symbolic-length run with a character')
    ta, tb = isinstance(a, Tok), isinstance(b, Tok)
    if ta and tb:
        if a.spec != b.spec:
            return False
        va, vb = a.val, b.val
        if isinstance(va, Sym) or isinstance(vb, Sym):
            return va == vb
        return va == vb
    if ta or tb:
        other = b if ta else a
        if isinstance(other, str) and other not in tok_alphabet(a if ta else b):
            return False
        if isinstance(other, str):
            raise Escape('comparison of a formatted number with the character %r' % other)
        # symbolic char vs token: a token is several characters, never one symbolic character cell
        tok = a if ta else b
        if tok.width is not None and tok.width > 1:
            return False
        raise Escape('comparison of a formatted number with a symbolic character')
    if isinstance(a, str) and isinstance(b, str):
        return a == b
    r = code(a) == code(b)
    if isinstance(r, Sym):
        if r.e is X.TRUE:
            return True
        if r.e is X.FALSE:
            return False
    return r


CLASSES = {
    'digit': [(48, 57)],
    'upper': [(65, 90)],
    'lower': [(97, 122)],
    'alpha': [(65, 90), (97, 122)],
    'alnum': [(48, 57), (65, 90), (97, 122)],
    'word': [(48, 57), (65, 90), (97, 122), (95, 95)],
    'space': [(32, 32), (9, 13)],
}


def in_ranges(c, ranges):
    if isinstance(c, Tok):
        raise Escape('character class test on a formatted number')
    if isinstance(c, str):
        o = ord(c)
        return any(lo <= o <= hi for lo, hi in ranges)
    cond = None
    for lo, hi in ranges:
        t = (c >= lo) & (c <= hi) if lo != hi else (c == lo)
        cond = t if cond is None else (cond | t)
    return cond


def in_class(c, name):
    return in_ranges(c, CLASSES[name])


def is_space(c):
    if isinstance(c, (Tok, Blob)):
        return False
    return _truth(in_class(c, 'space'))


def _could_be_letter(c):
    return True


# ---------------------------------------------------------------------- float grammar
def parse_float_cells(cells):
    """float() of a string with symbolic characters: decimal literals  [sign] digits [. digits] [e [sign] digits]
    (no inf/nan/underscore forms: those need letters/underscores which raise ValueError here, as a
    conservative stand-in -- recorded in DESIGN as outside the claim).  Forks per character class."""
    i, n = 0, len(cells)
    sign = 1
    if i < n and _truth(cell_eq(cells[i], '-')):
        sign, i = -1, i + 1
    elif i < n and _truth(cell_eq(cells[i], '+')):
        i += 1
    mant = 0
    nd = 0
    frac_digits = 0
    while i < n and _truth(in_class(cells[i], 'digit')):
        mant = mant * 10 + (code(cells[i]) - 48)
        nd += 1
        i += 1
    if i < n and _truth(cell_eq(cells[i], '.')):
        i += 1
        while i < n and _truth(in_class(cells[i], 'digit')):
            mant = mant * 10 + (code(cells[i]) - 48)
            nd += 1
            frac_digits += 1
            i += 1
    if nd == 0:
        raise ValueError('could not convert string to float')
    exp10 = 0
    if i < n and (_truth(cell_eq(cells[i], 'e')) or _truth(cell_eq(cells[i], 'E'))):
        i += 1
        esign = 1
        if i < n and _truth(cell_eq(cells[i], '-')):
            esign, i = -1, i + 1
        elif i < n and _truth(cell_eq(cells[i], '+')):
            i += 1
        ne = 0
        ev = 0
        while i < n and _truth(in_class(cells[i], 'digit')):
            ev = ev * 10 + (code(cells[i]) - 48)
            ne += 1
            i += 1
        if ne == 0:
            raise ValueError('could not convert string to float')
        if isinstance(ev, Sym):
            from .proxy import enumerate_int
            ev = enumerate_int(ev)          # one path per value of the exponent
        exp10 = esign * ev
    if i != n:
        raise ValueError('could not convert string to float')
    from fractions import Fraction
    scale = Fraction(10) ** (exp10 - frac_digits)
    if isinstance(mant, Sym):
        return Sym(X.mul(X.const(Fraction(sign) * scale), X.to_real(mant.e)))
    return float(sign * mant * scale)


# ---------------------------------------------------------------------- formatting
import re as _re
_SPEC = _re.compile(r'^(?:(?P<fill>.)?(?P<align>[<>=^]))?(?P<sign>[-+ ])?(?P<alt>#)?(?P<zero>0)?(?P<width>\d+)?(?P<grp>[_,])?'
                    r'(?:\.(?P<prec>\d+))?(?P<type>[bcdeEfFgGnosxX%])?$')


def number_token(val, spec):
    """Tok for a symbolic number under a format spec, with the width CPython gives when it is determined"""
    m = _SPEC.match(spec or '')
    width = None
    if m:
        w = int(m.group('width')) if m.group('width') else 0
        t = m.group('type')
        prec = int(m.group('prec')) if m.group('prec') else None
        if t in ('e', 'E') and prec is not None:
            # sign slot + d . prec digits + e+dd   (two-digit exponent: 1e-99 < |x| < 1e100 or x = 0)
            natural = (1 if (m.group('sign') in (' ', '+')) else 0) + 1 + 1 + prec + 4
            if m.group('sign') in (' ', '+'):
                width = max(w, natural)
            # without an explicit sign slot the width depends on the sign of the value: unknown
    return Tok(spec or '', val, width)


def number_cells(v, spec):
    """cells for a formatted symbolic number.  With an explicit sign slot ('{: 2.8E}', '{:+.3f}') the sign
    character is its own (symbolic) cell, followed by the token of the magnitude: the blank of a
    non-negative number is a real blank for split()/strip()/indexing, as in the real text."""
    m = _SPEC.match(spec or '')
    if m and m.group('sign') in (' ', '+') and m.group('type') in ('e', 'E', 'f', 'F') and not m.group('zero'):
        tok = number_token(v, spec)
        if tok.width is not None or m.group('type') in ('f', 'F'):
            pos = ord(m.group('sign'))
            e = X.to_real(lift(v))
            neg = X.lt(e, X.const(0))
            sign_cell = Sym(X.ite(neg, X.iconst(45), X.iconst(pos)))
            mag = Sym(X.ite(neg, X.neg(e), e))
            rest_spec = spec.replace(m.group('sign'), '', 1)
            rest = Tok(rest_spec, mag, (tok.width - 1) if tok.width is not None else None)
            return (sign_cell, rest)
    return (number_token(v, spec),)


def format_value(v, spec, conv=None):
    """-> tuple of cells"""
    if isinstance(v, SymStr):
        if conv == 'r':
            raise Escape('repr of a symbolic string')
        if not spec:
            return v.cells
        m = _SPEC.match(spec)
        if not m or m.group('type') not in (None, 's'):
            raise Escape('format spec %r on a symbolic string' % spec)
        w = int(m.group('width')) if m.group('width') else 0
        prec = int(m.group('prec')) if m.group('prec') else None
        cells = v.cells
        if prec is not None:
            cells = SymStr(cells)[:prec].cells
        n = len(SymStr(cells))
        pad = max(0, w - n)
        fill = m.group('fill') or ' '
        align = m.group('align') or '<'
        if align == '<':
            return tuple(cells) + tuple(fill) * pad
        if align == '>':
            return tuple(fill) * pad + tuple(cells)
        left = pad // 2
        return tuple(fill) * left + tuple(cells) + tuple(fill) * (pad - left)
    if isinstance(v, Sym):
        if conv is not None:
            raise Escape('conversion !%s of a symbolic number' % conv)
        return number_cells(v, spec)
    if conv == 'r':
        v = repr(v)
    elif conv == 's':
        v = str(v)
    elif conv == 'a':
        v = ascii(v)
    if isinstance(v, (list, tuple, dict, set)) and _contains_symbolic(v):
        return tuple(render_container(v))
    return tuple(format(v, spec))


def _contains_symbolic(v):
    if isinstance(v, (Sym, SymStr)):
        return True
    if isinstance(v, dict):
        return any(_contains_symbolic(k) or _contains_symbolic(x) for k, x in v.items())
    if isinstance(v, (list, tuple, set)):
        return any(_contains_symbolic(x) for x in v)
    return False


def render_container(v):
    """str() of a list/tuple/dict holding symbolic values"""
    if isinstance(v, SymStr):
        raise Escape('repr of a symbolic string inside a container')
    if isinstance(v, Sym):
        return [number_token(v, 'r')]
    if isinstance(v, list):
        out = ['[']
        for i, x in enumerate(v):
            if i:
                out += [',', ' ']
            out += render_container(x)
        return out + [']']
    if isinstance(v, tuple):
        out = ['(']
        for i, x in enumerate(v):
            if i:
                out += [',', ' ']
            out += render_container(x)
        if len(v) == 1:
            out.append(',')
        return out + [')']
    if isinstance(v, dict):
        out = ['{']
        for i, (k, x) in enumerate(v.items()):
            if i:
                out += [',', ' ']
            out += render_container(k) + [':', ' '] + render_container(x)
        return out + ['}']
    return list(repr(v))


def format_string(fmt, args, kw):
    cells = []
    auto = 0
    for lit, field, spec, conv in _string.Formatter().parse(fmt):
        cells.extend(lit)
        if field is None:
            continue
        # nested spec: {:{format}}
        if spec and '{' in spec:
            spec_cells = format_string(spec, args, kw)
            spec = spec_cells.concrete() if isinstance(spec_cells, SymStr) else spec_cells
        # field lookup (positional / keyword, with simple attribute or index access)
        name, rest = field, ''
        for k, ch in enumerate(field):
            if ch in '.[':
                name, rest = field[:k], field[k:]
                break
        if name == '':
            v = args[auto]
            auto += 1
        elif name.isdigit():
            v = args[int(name)]
        else:
            v = kw[name]
        if rest:
            for part in _re.findall(r'\.(\w+)|\[([^\]]+)\]', rest):
                if part[0]:
                    v = getattr(v, part[0])
                else:
                    key = part[1]
                    v = v[int(key)] if key.lstrip('-').isdigit() else v[key]
        cells.extend(format_value(v, spec or '', conv))
    return SymStr(cells)


def percent_format(fmt, arg):
    args = arg if isinstance(arg, tuple) else (arg,)
    cells, k, i = [], 0, 0
    pat = _re.compile(r'%(?P<flags>[-+ #0]*)(?P<width>\d+)?(?:\.(?P<prec>\d+))?(?P<type>[diouxXeEfFgGcrsa%])')
    while i < len(fmt):
        m = pat.match(fmt, i)
        if not m:
            cells.append(fmt[i])
            i += 1
            continue
        i = m.end()
        if m.group('type') == '%':
            cells.append('%')
            continue
        v = args[k]
        k += 1
        spec = m.group(0)
        if isinstance(v, SymStr):
            if m.group('type') not in ('s',):
                raise TypeError('%%%s format: a number is required, not str' % m.group('type'))
            w = int(m.group('width')) if m.group('width') else 0
            n = len(v)
            pad = max(0, w - n)
            if '-' in m.group('flags'):
                cells.extend(v.cells + (' ',) * pad)
            else:
                cells.extend((' ',) * pad + v.cells)
        elif isinstance(v, Sym):
            t = m.group('type')
            ns = (m.group('flags') or '') + (m.group('width') or '') + (('.' + m.group('prec')) if m.group('prec') else '') + t
            if t in ('d', 'i') and v.e.sort != 'I':
                from .proxy import sym_int
                v = sym_int(v)            # %d truncates a float toward zero
            tok = Tok('%' + ns, v, None)
            if t in ('d', 'i') and not m.group('width'):
                tok.width = None
            cells.append(tok)
        else:
            cells.extend(spec % v)
    return SymStr(cells)


def has_symbolic(args, kw):
    for v in list(args) + list(kw.values()):
        if _contains_symbolic(v):
            return True
    return False


def fmt_hook(kind, lit, args, kw):
    """installed as loader.fmt_hook: the instrumented `"lit" % x`, `"lit".format(..)`, f-strings"""
    if kind == '%':
        a = args[0]
        if not has_symbolic(a if isinstance(a, tuple) else (a,), {}):
            return NotImplemented
        return percent_format(lit, a)
    if kind == 'format':
        if not has_symbolic(args, kw):
            return NotImplemented
        return format_string(lit, args, kw)
    if kind == 'fstr':
        vals = [a[0] for a in args if isinstance(a, tuple)]
        if not has_symbolic(vals, {}):
            return NotImplemented
        cells = []
        for a in args:
            if isinstance(a, tuple):
                v, conv, spec = a
                if isinstance(spec, SymStr):
                    spec = spec.concrete()
                cells.extend(format_value(v, spec, conv))
            else:
                cells.extend(a)
        return SymStr(cells)
    if kind == 'join':
        items = list(args[0])
        if not any(isinstance(x, SymStr) for x in items):
            return NotImplemented
        return SymStr(lit).join(items)
    return NotImplemented


def sym_str(x=''):
    if isinstance(x, SymStr):
        return x
    if isinstance(x, Sym):
        return SymStr((number_token(x, 'str'),))
    if isinstance(x, (list, tuple, dict)) and _contains_symbolic(x):
        return SymStr(render_container(x))
    return str(x)


class SymStrType(str):
    """what `str` resolves to in instrumented modules (callable like str(), usable as a type)"""
    def __new__(cls, x=''):
        return sym_str(x)


def sym_len(x):
    if isinstance(x, SymStr):
        return x.__symlen__()
    return len(x)


VFS = {}        # name -> SymStr / str content of in-memory text files


class _MemFile:
    def __init__(self, name, mode):
        self.name, self.mode = name, mode
        self.buf = []

    def __enter__(self):
        return self

    def __exit__(self, *a):
        self.close()
        return False

    def close(self):
        if 'w' in self.mode:
            out = SymStr(())
            for piece in self.buf:
                out = out + piece
            VFS[self.name] = out

    def write(self, text):
        self.buf.append(SymStr.of(text) if not isinstance(text, SymStr) else text)

    def _content(self):
        c = VFS[self.name]
        return c if isinstance(c, SymStr) else SymStr(c)

    def read(self):
        return self._content()

    def readlines(self):
        return self._content().splitlines(keepends=True)

    def __iter__(self):
        return iter(self.readlines())


def sym_open(name, mode='r', *a, **kw):
    if isinstance(name, str) and name.startswith('mem://'):
        return _MemFile(name, mode)
    import builtins
    return builtins.open(name, mode, *a, **kw)


def install():
    from . import loader
    loader.fmt_hook[0] = fmt_hook
    loader.extra_globals['str'] = SymStrType
    loader.extra_globals['len'] = sym_len
    loader.extra_globals['open'] = sym_open
    from . import symre
    loader.module_patches['re'] = ('re', symre.module)
