"""Proxy values that build terms while the real pMuTT code runs on them."""
from fractions import Fraction
import numpy as np
from . import expr as X


class Escape(BaseException):
    """a symbolic value reached a C boundary that would silently concretise it.
    BaseException on purpose: pMuTT's own `except Exception/TypeError` must not swallow it."""


_decide = [None]     # installed by sched
_pick = [None]       # installed by sched: a feasible integer value of a term on the current path
_hash_registry = []  # symbolic values hashed on the current path (reset per run by the scheduler)
_hashed = [False]    # did any symbolic value serve as a dictionary key in this process?


def lift(x):
    if isinstance(x, Sym):
        return x.e
    if isinstance(x, X.E):
        return x
    if isinstance(x, (bool, np.bool_)):
        return X.bconst(bool(x))
    if isinstance(x, (int, np.integer)):
        return X.iconst(int(x))
    if isinstance(x, (float, np.floating, Fraction)):
        return X.const(x)
    if isinstance(x, np.ndarray) and x.ndim == 0:
        return lift(x.item())
    raise TypeError('cannot lift %r' % type(x))


def _liftable(x):
    return isinstance(x, (Sym, bool, int, float, Fraction, np.integer, np.floating, np.bool_)) or \
        (isinstance(x, np.ndarray) and x.ndim == 0)


def _num(e):
    return X.to_real(e) if e.sort == 'B' else e


class Sym:
    __slots__ = ('e',)
    __array_priority__ = 1000
    dtype = np.dtype(object)

    def __init__(self, e):
        self.e = e

    # ---- sorts
    @property
    def sort(self):
        return self.e.sort

    # ---- arithmetic
    def _bin(self, o, f, rev=False):
        if not _liftable(o):
            return NotImplemented
        a, b = _num(self.e), _num(lift(o))
        if rev:
            a, b = b, a
        return Sym(f(a, b))

    def __add__(self, o): return self._bin(o, X.add)
    def __radd__(self, o): return self._bin(o, X.add, True)
    def __sub__(self, o): return self._bin(o, X.sub)
    def __rsub__(self, o): return self._bin(o, X.sub, True)
    def __mul__(self, o): return self._bin(o, X.mul)
    def __rmul__(self, o): return self._bin(o, X.mul, True)
    def __truediv__(self, o): return self._bin(o, X.div)
    def __rtruediv__(self, o): return self._bin(o, X.div, True)

    def __floordiv__(self, o):
        if not _liftable(o):
            return NotImplemented
        a, b = self.e, lift(o)
        if a.sort == 'I' and b.sort == 'I':
            return Sym(X.idiv(a, b))
        return Sym(X.to_real(X.floor_(X.div(a, b))))

    def __rfloordiv__(self, o):
        return Sym(lift(o)).__floordiv__(self)

    def __mod__(self, o):
        if not _liftable(o):
            return NotImplemented
        a, b = self.e, lift(o)
        if a.sort == 'I' and b.sort == 'I':
            return Sym(X.imod(a, b))
        q = X.to_real(X.floor_(X.div(a, b)))
        return Sym(X.sub(X.to_real(a), X.mul(q, X.to_real(b))))

    def __rmod__(self, o):
        return Sym(lift(o)).__mod__(self)

    def __neg__(self): return Sym(X.neg(_num(self.e)))
    def __pos__(self): return self

    def __abs__(self):
        e = _num(self.e)
        zero = X.iconst(0) if e.sort == 'I' else X.const(0)
        return Sym(X.ite(X.lt(e, zero), X.neg(e), e))

    def __pow__(self, o):
        if isinstance(o, Sym):
            if o.e.op == 'c':
                return self.__pow__(o.e.args[0])
            return Sym(X.exp(X.mul(o.e, X.log(self.e))))
        if not _liftable(o):
            return NotImplemented
        q = X.snap(o) if not isinstance(o, (int, np.integer)) else Fraction(int(o))
        if q.denominator == 1:
            return Sym(X.powi(_num(self.e), q.numerator))
        if q.denominator > 64:
            raise Escape('irrational-looking exponent %r' % (o,))
        return Sym(X.powq(_num(self.e), q))

    def __rpow__(self, o):
        # c ** sym
        return Sym(X.exp(X.mul(_num(self.e), X.log(_num(lift(o))))))

    # ---- comparisons
    def _cmp(self, o, f, rev=False):
        if isinstance(o, (list, tuple)) or (isinstance(o, np.ndarray) and o.ndim > 0):
            # scalar-vs-sequence comparison is element-wise (what np.float64 does)
            arr = np.asarray(o, dtype=object)
            out = np.empty(arr.shape, dtype=object)
            for idx in np.ndindex(arr.shape):
                out[idx] = self._cmp(arr[idx], f, rev)
            return out
        if not _liftable(o):
            return NotImplemented
        if isinstance(o, (float, np.floating)) and (o == float('inf') or o == float('-inf')):
            # comparison of a real with +-infinity is decided (np.inf is used as an initial 'previous value')
            big = o > 0
            name = f.__name__
            if rev:
                name = {'lt': 'gt', 'le': 'ge', 'gt': 'lt', 'ge': 'le'}.get(name, name)
            res = {'lt': big, 'le': big, 'gt': not big, 'ge': not big, 'eq': False, 'ne': True}[name]
            return Sym(X.bconst(res))
        a, b = self.e, lift(o)
        if rev:
            a, b = b, a
        return Sym(f(a, b))

    def __lt__(self, o): return self._cmp(o, X.lt)
    def __le__(self, o): return self._cmp(o, X.le)
    def __gt__(self, o): return self._cmp(o, X.gt)
    def __ge__(self, o): return self._cmp(o, X.ge)

    def __eq__(self, o):
        if o is None or isinstance(o, str):
            return False
        return self._cmp(o, X.eq)

    def __ne__(self, o):
        if o is None or isinstance(o, str):
            return True
        return self._cmp(o, X.ne)

    def __hash__(self):
        # dictionary / set semantics for symbolic keys: equal values must hash alike.  Every symbolic value hashed on this
        # path is compared (a solver-decided fork) with the ones hashed before; equal -> same bucket, else a bucket of its
        # own.  A symbolic key is assumed different from any *concrete* key of the same container (recorded as an
        # assumption in the evidence whenever this code runs).
        if self.e.op == 'c':
            v = self.e.args[0]
            return hash(int(v)) if v.denominator == 1 else hash(float(v))
        if _decide[0] is None:
            raise Escape('symbolic value used as a hash key')
        _hashed[0] = True
        for t, hid in _hash_registry:
            if t.e is self.e:
                return hid
        for t, hid in list(_hash_registry):
            if t.e.sort == 'B' or self.e.sort == 'B':
                continue
            if bool(Sym(X.eq(self.e, t.e))):
                _hash_registry.append((self, hid))
                return hid
        hid = 0x5EED0000 + len(_hash_registry)
        _hash_registry.append((self, hid))
        return hid

    # ---- boolean algebra (only meaningful for sort B)
    def _b(self):
        e = self.e
        if e.sort == 'B':
            return e
        return X.ne(e, X.iconst(0) if e.sort == 'I' else X.const(0))

    def __and__(self, o): return Sym(X.and_(self._b(), Sym(lift(o))._b()))
    __rand__ = __and__
    def __or__(self, o): return Sym(X.or_(self._b(), Sym(lift(o))._b()))
    __ror__ = __or__
    def __invert__(self): return Sym(X.not_(self._b()))

    def __bool__(self):
        e = self._b()
        if e is X.TRUE:
            return True
        if e is X.FALSE:
            return False
        return _decide[0](e)

    # ---- C boundaries
    def __float__(self):
        if self.e.op == 'c':
            return float(self.e.args[0])
        raise Escape('float() of a symbolic value (escaped to C)')

    def __int__(self):
        if self.e.op == 'c' and self.e.args[0].denominator == 1:
            return int(self.e.args[0])
        raise Escape('int() of a symbolic value (escaped to C)')

    def __index__(self):
        if self.e.op == 'c' and self.e.sort == 'I':
            return int(self.e.args[0])
        if self.e.sort in ('I', 'B') and _pick[0] is not None:
            return enumerate_int(self)
        raise Escape('symbolic value used as an index')

    def __round__(self, n=None):
        return sym_round(self, n)

    # np.float64-like surface used by pMuTT on scalar results
    def item(self, *a): return self
    def tolist(self): return self
    ndim = 0
    shape = ()
    size = 1

    def __repr__(self): return '<sym %s>' % X.show(self.e, 3)
    __str__ = __repr__

    def __format__(self, spec):
        return '<sym>'

    # ---- numpy protocol
    def __array_ufunc__(self, ufunc, method, *inputs, **kw):
        if method != '__call__':
            return NotImplemented
        kw.pop('out', None)
        if any(isinstance(i, np.ndarray) and i.ndim > 0 for i in inputs) or \
                any(isinstance(i, (list, tuple)) for i in inputs):
            arrs = [np.asarray(i, dtype=object) if isinstance(i, (np.ndarray, list, tuple)) else i for i in inputs]
            shp = np.broadcast(*[x if isinstance(x, np.ndarray) else np.empty((), dtype=object) for x in arrs]).shape
            its = [np.broadcast_to(x, shp) if isinstance(x, np.ndarray) else None for x in arrs]
            out = np.empty(shp, dtype=object)
            for idx in np.ndindex(shp):
                args = [(it[idx] if it is not None else x) for it, x in zip(its, arrs)]
                out[idx] = apply_ufunc(ufunc, args)
            return out
        return apply_ufunc(ufunc, list(inputs))


def apply_ufunc(ufunc, args):
    n = ufunc.__name__
    if not any(isinstance(a, Sym) for a in args):
        return ufunc(*args)
    a = [x if isinstance(x, Sym) else Sym(lift(x)) for x in args]
    if n == 'exp': return Sym(X.exp(_num(a[0].e)))
    if n == 'log': return Sym(X.log(_num(a[0].e)))
    if n == 'log10': return Sym(X.div(X.log(_num(a[0].e)), X.log(X.const(10))))
    if n == 'sinh':
        x = _num(a[0].e)
        return Sym(X.mul(X.const(Fraction(1, 2)), X.sub(X.exp(x), X.exp(X.neg(x)))))
    if n == 'cosh':
        x = _num(a[0].e)
        return Sym(X.mul(X.const(Fraction(1, 2)), X.add(X.exp(x), X.exp(X.neg(x)))))
    if n == 'sqrt': return a[0] ** 0.5
    if n == 'square': return a[0] * a[0]
    if n == 'add': return a[0] + a[1]
    if n == 'subtract': return a[0] - a[1]
    if n == 'multiply': return a[0] * a[1]
    if n in ('divide', 'true_divide'): return a[0] / a[1]
    if n == 'floor_divide': return a[0] // a[1]
    if n == 'negative': return -a[0]
    if n == 'positive': return a[0]
    if n == 'absolute' or n == 'fabs': return abs(a[0])
    if n == 'power': return a[0] ** args[1]
    if n == 'reciprocal': return 1 / a[0]
    if n == 'less': return a[0] < a[1]
    if n == 'less_equal': return a[0] <= a[1]
    if n == 'greater': return a[0] > a[1]
    if n == 'greater_equal': return a[0] >= a[1]
    if n == 'equal': return a[0] == a[1]
    if n == 'not_equal': return a[0] != a[1]
    if n == 'maximum': return a[0] if a[0] >= a[1] else a[1]
    if n == 'minimum': return a[0] if a[0] <= a[1] else a[1]
    if n == 'logical_and': return a[0] & a[1]
    if n == 'logical_or': return a[0] | a[1]
    if n == 'logical_not': return ~a[0]
    if n == 'isnan': return False
    if n == 'isfinite': return True
    raise Escape('numpy ufunc %s on a symbolic value' % n)


for _n in ('exp', 'log', 'log10', 'sinh', 'cosh', 'sqrt', 'square', 'absolute', 'fabs', 'negative', 'reciprocal'):
    def _mk(n):
        uf = getattr(np, n)
        return lambda self: apply_ufunc(uf, [self])
    setattr(Sym, _n, _mk(_n))
Sym.conjugate = lambda self: self
Sym.real = property(lambda self: self)


# -------------------------------------------------------------------- builtins shadows
def has_sym(x):
    if isinstance(x, Sym):
        return True
    if isinstance(x, np.ndarray):
        return x.dtype == object and any(isinstance(v, Sym) for v in x.flat)
    if isinstance(x, (list, tuple)):
        return any(has_sym(v) for v in x)
    return False


def sym_float(x=0.0):
    if isinstance(x, Sym):
        return Sym(_num(X.to_real(x.e)))
    if hasattr(x, '__symfloat__'):
        return x.__symfloat__()
    if isinstance(x, np.ndarray) and x.dtype == object and x.size == 1:
        return sym_float(x.ravel()[0])
    return float(x)


def enumerate_int(s, cap=48):
    """concrete value of a symbolic integer that has to cross a C boundary: every feasible value gets its own path
    (fork on  s == v  for a value v the solver proposes), so nothing is sampled; more than `cap` values is an Escape"""
    e = s.e
    if e.sort == 'B':
        e = X.ite(e, X.iconst(1), X.iconst(0))
    if e.op == 'c':
        return int(e.args[0])
    for _ in range(cap):
        v = _pick[0](e)
        if v is None:
            raise Escape('no value could be proposed for a symbolic index')
        if bool(Sym(X.eq(e, X.iconst(v)))):
            return v
    raise Escape('a symbolic index takes more than %d values' % cap)


def sym_int(x=0, *a):
    if isinstance(x, Sym):
        if x.e.sort == 'B':
            return Sym(X.ite(x.e, X.iconst(1), X.iconst(0)))
        return Sym(X.trunc(_num(x.e)))
    if hasattr(x, '__symint__'):
        return x.__symint__(*a)
    return int(x, *a)


def sym_round(x, n=None):
    if not isinstance(x, Sym):
        return round(x, n) if n is not None else round(x)
    # round-half-even over the reals:  r = floor(s + 1/2), minus 1 when s+1/2 is an even... kept
    # simple: nearest integer with ties to even
    scale = Fraction(10) ** (n or 0)
    s = X.mul(X.const(scale), X.to_real(_num(x.e)))
    fl = X.floor_(X.add(s, X.const(Fraction(1, 2))))
    tie = X.eq(X.to_real(fl), X.add(s, X.const(Fraction(1, 2))))
    odd = X.eq(X.imod(fl, X.iconst(2)), X.iconst(1))
    r = X.ite(X.and_(tie, odd), X.add(fl, X.iconst(-1)), fl)
    if n is None:
        return Sym(r)
    return Sym(X.mul(X.const(1 / scale), X.to_real(r)))


def sym_abs(x):
    return abs(x)


class SymFloatType(float):
    """what `float` resolves to in instrumented modules: float(x) on a proxy stays symbolic; as a type
    (np.finfo(float), dtype=float, isinstance) it behaves as float"""
    def __new__(cls, x=0.0):
        return sym_float(x)


class SymIntType(int):
    def __new__(cls, x=0, *a):
        return sym_int(x, *a)


def _unshadow(c):
    if c is sym_int or c is SymIntType:
        return int
    if c is sym_float or c is SymFloatType:
        return float
    if getattr(c, '__name__', '') == 'SymStrType':
        return str
    if getattr(c, '__name__', '') == 'sym_str':
        return str
    return c


def sym_isinstance(obj, cls):
    """isinstance that lets a proxy pass for the scalar it stands for"""
    # the module-level shadows of int/float are functions: map them back to the types
    if isinstance(cls, tuple):
        cls = tuple(_unshadow(c) for c in cls)
    else:
        cls = _unshadow(cls)
    if type(obj).__name__ == 'SymStr' and type(obj).__module__.endswith('symstr'):
        classes = cls if isinstance(cls, tuple) else (cls,)
        return any(c is str or c is object for c in classes) or isinstance(obj, cls)
    if isinstance(obj, Sym):
        classes = cls if isinstance(cls, tuple) else (cls,)
        for c in classes:
            if c is float or c is np.floating or c is np.float64:
                if obj.e.sort == 'R':
                    return True
            if c is int or c is np.integer:
                if obj.e.sort == 'I':
                    return True
            if c is bool and obj.e.sort == 'B':
                return True
            if c is Sym or c is object:
                return True
        return False
    return isinstance(obj, cls)
