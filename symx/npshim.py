"""What `np` resolves to inside instrumented pmutt modules.

Delegates to NumPy unless a proxy is involved; then: allocations become object arrays,
order/selection functions fork through proxy comparisons, isclose/isnan use their
documented formulas over the reals, compiled solvers are replaced by contract stubs
(registered by harnesses through `stubs`).
"""
import numpy as _np
from .proxy import Sym, has_sym, lift, Escape
from . import expr as X

stubs = {}      # name -> callable, installed per harness (polyfit, roots, lstsq, ...)


def _obj(a):
    return _np.asarray(a, dtype=object)


_CMP_UFUNCS = ('greater', 'greater_equal', 'less', 'less_equal', 'equal', 'not_equal', 'isnan', 'isfinite', 'logical_not',
               'logical_and', 'logical_or')


def _boolify(r):
    """comparison results on all-concrete object arrays become real bool arrays (usable as masks)"""
    if isinstance(r, _np.ndarray) and r.dtype == object and r.size and all(isinstance(v, (bool, _np.bool_)) for v in r.flat):
        return _np.asarray(r, dtype=bool).view(_np.ndarray)
    return r


class FArr(_np.ndarray):
    """object array standing for a float64 array allocated by instrumented code: element
    assignment follows float-array rules (a sequence cannot be stored in one element)"""

    def __array_ufunc__(self, ufunc, method, *inputs, **kw):
        ins = [i.view(_np.ndarray) if isinstance(i, FArr) else i for i in inputs]
        if 'out' in kw:
            kw['out'] = tuple(o.view(_np.ndarray) if isinstance(o, FArr) else o for o in kw['out'])
        r = getattr(ufunc, method)(*ins, **kw)
        if ufunc.__name__ in _CMP_UFUNCS:
            return _boolify(r)
        if isinstance(r, _np.ndarray) and r.dtype == object:
            return r.view(FArr)
        return r

    def __setitem__(self, idx, val):
        if isinstance(val, (list, tuple)) or (isinstance(val, _np.ndarray) and val.ndim > 0):
            tgt = _np.ndarray.__getitem__(self, idx)
            if not isinstance(tgt, _np.ndarray):
                raise ValueError('setting an array element with a sequence.')
        _np.ndarray.__setitem__(self, idx, val)

    def __getitem__(self, idx):
        # boolean mask with symbolic entries: each entry is decided (forks), then ordinary mask indexing
        if isinstance(idx, _np.ndarray) and idx.dtype == object and idx.shape == self.shape and idx.size \
                and all(isinstance(v, (bool, _np.bool_)) or (isinstance(v, Sym) and v.e.sort == 'B') for v in idx.flat):
            idx = _np.array([bool(v) for v in idx.flat], dtype=bool).reshape(idx.shape)
        return _np.ndarray.__getitem__(self, idx)


class IArr(_np.ndarray):
    """object array standing for an int64 array (e.g. zeros_like of an integer container):
    storing a real truncates toward zero, as the C cast does"""

    def __setitem__(self, idx, val):
        from .proxy import sym_int
        if isinstance(val, (list, tuple)) or (isinstance(val, _np.ndarray) and val.ndim > 0):
            tgt = _np.ndarray.__getitem__(self, idx)
            if not isinstance(tgt, _np.ndarray):
                raise ValueError('setting an array element with a sequence.')
            _np.ndarray.__setitem__(self, idx, val)
            return
        _np.ndarray.__setitem__(self, idx, sym_int(val))


def _int_typed(a):
    if isinstance(a, _np.ndarray) and a.dtype != object:
        return _np.issubdtype(a.dtype, _np.integer)
    vals = list(_obj(a).ravel())
    if not vals:
        return False
    for v in vals:
        if isinstance(v, Sym):
            if v.e.sort != 'I':
                return False
        elif isinstance(v, (bool, _np.bool_)) or not isinstance(v, (int, _np.integer)):
            return False
    return True


def _falloc(shape, fill):
    a = _np.empty(shape, dtype=object).view(FArr)
    a.fill(fill)
    return a


def _plain_dtype(dtype):
    from .proxy import _unshadow
    try:
        return _unshadow(dtype)
    except Exception:
        return dtype


def _is_int_dtype(dtype):
    """an integer dtype (the builtin int - possibly its shadow class - or a NumPy integer type): stores truncate"""
    dt = _plain_dtype(dtype)
    if dt is bool or dt is _np.bool_:
        return False
    try:
        return _np.issubdtype(_np.dtype(dt), _np.integer)
    except Exception:
        return False


def _ialloc(shape, fill):
    a = _np.empty(shape, dtype=object).view(IArr)
    a.fill(int(fill))
    return a


def _is_float_dtype(dtype):
    if dtype is None or dtype in (float, _np.double, _np.float64):
        return True
    return isinstance(dtype, type) and issubclass(dtype, float)


class _Shim:
    def __getattr__(self, name):
        f = getattr(_np, name)
        if not callable(f) or isinstance(f, type):
            return f

        def call(*a, **kw):
            # functions this shim does not model run as real NumPy; a `dtype=int` / `dtype=float` written in instrumented code
            # is the shadow class there and must be handed over as the builtin - and an integer dtype on symbolic data is
            # refused, because NumPy would store the proxies untruncated in an object array
            if 'dtype' in kw and kw['dtype'] is not None:
                plain = _plain_dtype(kw['dtype'])
                if _is_int_dtype(plain) and any(has_sym(x) for x in a if not isinstance(x, (str, bytes))):
                    raise Escape('np.%s(..., dtype=<integer>) on symbolic data is not modelled' % name)
                kw['dtype'] = plain
            return f(*a, **kw)
        call.__name__ = name
        return call

    def interp(self, x, xp, fp, left=None, right=None, period=None):
        if not (has_sym(x) or has_sym(xp) or has_sym(fp)):
            return _np.interp(x, xp, fp, left=left, right=right, period=period)
        if period is not None:
            raise Escape('np.interp with a period on symbolic data')
        xs, fs = list(xp), list(fp)
        if len(xs) != len(fs) or not xs:
            raise ValueError('fp and xp are not of the same length')

        def one(v):
            # documented behaviour for increasing xp: constant outside the range, linear between neighbours
            if bool(v < xs[0]):
                return fs[0] if left is None else left
            if bool(v > xs[-1]):
                return fs[-1] if right is None else right
            for i in range(len(xs) - 1):
                if bool(v <= xs[i + 1]):
                    if bool(v == xs[i + 1]):
                        return fs[i + 1]
                    if bool(v == xs[i]):
                        return fs[i]
                    return fs[i] + (fs[i + 1] - fs[i]) * (v - xs[i]) / (xs[i + 1] - xs[i])
            return fs[-1]
        if isinstance(x, (list, tuple, _np.ndarray)):
            out = _np.empty(len(x), dtype=object)
            for i, v in enumerate(x):
                out[i] = one(v)
            return out.view(FArr)
        return one(x)

    def fromiter(self, iterable, dtype, count=-1, **kw):
        vals = list(iterable)
        if count is not None and count >= 0:
            vals = vals[:count]
        if _is_int_dtype(dtype):
            r = _ialloc(len(vals), 0)
            for i, v in enumerate(vals):
                r[i] = v
            return r
        if _is_float_dtype(dtype):
            r = _falloc(len(vals), 0.0)
            for i, v in enumerate(vals):
                r[i] = v
            return r
        return _np.fromiter(vals, dtype=_plain_dtype(dtype), count=len(vals))

    def finfo(self, t=float):
        from .proxy import _unshadow
        return _np.finfo(_unshadow(t))

    def iinfo(self, t=int):
        from .proxy import _unshadow
        return _np.iinfo(_unshadow(t))

    def dtype(self, t, *a, **kw):
        from .proxy import _unshadow
        return _np.dtype(_unshadow(t), *a, **kw)

    # ---- allocation: float arrays that will receive proxies must be object arrays.
    # We cannot know at allocation time, so *all* float allocations made by instrumented
    # code are object arrays holding Python floats; arithmetic is unchanged in value.
    def zeros(self, shape, dtype=float, **kw):
        if _is_float_dtype(dtype):
            return _falloc(shape, 0.0)
        if _is_int_dtype(dtype):
            return _ialloc(shape, 0)
        return _np.zeros(shape, dtype=_plain_dtype(dtype), **kw)

    def ones(self, shape, dtype=float, **kw):
        if _is_float_dtype(dtype):
            return _falloc(shape, 1.0)
        if _is_int_dtype(dtype):
            return _ialloc(shape, 1)
        return _np.ones(shape, dtype=_plain_dtype(dtype), **kw)

    def empty(self, shape, dtype=float, **kw):
        return self.zeros(shape, dtype=dtype, **kw)

    def _like(self, a, dtype, fill):
        shape = _np.shape(_obj(a) if has_sym(a) else a)
        if dtype is None and _int_typed(a):
            r = _np.empty(shape, dtype=object).view(IArr)
            r.fill(int(fill))
            return r
        if not _is_float_dtype(dtype):
            return _np.full(shape, fill, dtype=dtype)
        return _falloc(shape, float(fill))

    def zeros_like(self, a, dtype=None, **kw):
        return self._like(a, dtype, 0)

    def ones_like(self, a, dtype=None, **kw):
        return self._like(a, dtype, 1)

    def full_like(self, a, fill_value, dtype=None, **kw):
        return _falloc(_np.shape(_obj(a) if has_sym(a) else a), fill_value)

    def full(self, shape, fill_value, dtype=None, **kw):
        if _is_float_dtype(dtype) or (dtype is None and (isinstance(fill_value, (float, Sym)))):
            return _falloc(shape, fill_value)
        if dtype is not None and _is_int_dtype(dtype):
            r = _ialloc(shape, 0)
            r[...] = fill_value
            return r
        return _np.full(shape, fill_value, dtype=_plain_dtype(dtype) if dtype is not None else None, **kw)

    def shape(self, a):
        return _np.shape(_obj(a) if has_sym(a) else a)

    def array(self, obj, *a, **kw):
        if has_sym(obj):
            kw.pop('dtype', None)
            return _np.array(obj, dtype=object)
        if isinstance(obj, _np.ndarray) and obj.dtype == object:
            return _np.array(obj, dtype=object)
        return _np.array(obj, *a, **kw)

    def asarray(self, obj, *a, **kw):
        if has_sym(obj):
            return _np.asarray(obj, dtype=object)
        return _np.asarray(obj, *a, **kw)

    def append(self, arr, values, axis=None):
        if has_sym(arr) or has_sym(values):
            return _np.append(_obj(arr), _obj(values), axis=axis)
        return _np.append(arr, values, axis=axis)

    def concatenate(self, seq, *a, **kw):
        seq = list(seq)
        if any(has_sym(s) for s in seq):
            return _np.concatenate([_obj(s) for s in seq], *a, **kw)
        return _np.concatenate(seq, *a, **kw)

    # ---- reductions
    def sum(self, a, axis=None, **kw):
        if has_sym(a):
            a = _obj(a)
            if a.size == 0:
                return 0.0
            return _np.sum(a, axis=axis)
        return _np.sum(a, axis=axis, **kw)

    def prod(self, a, axis=None, **kw):
        if has_sym(a):
            return _np.prod(_obj(a), axis=axis)
        return _np.prod(a, axis=axis, **kw)

    product = prod

    def mean(self, a, axis=None, **kw):
        if has_sym(a):
            a = _obj(a)
            if axis is None:
                return _np.sum(a) / a.size
            return _np.sum(a, axis=axis) / a.shape[axis]
        return _np.mean(a, axis=axis, **kw)

    def dot(self, a, b):
        if has_sym(a) or has_sym(b):
            return _np.dot(_obj(a), _obj(b))
        return _np.dot(a, b)

    def _fold(self, a, better):
        a = _obj(a).ravel()
        best, bi = a[0], 0
        for i in range(1, len(a)):
            if better(a[i], best):
                best, bi = a[i], i
        return best, bi

    def max(self, a, axis=None, **kw):
        if has_sym(a):
            if axis is not None:
                raise Escape('np.max with axis on symbolic array')
            return self._fold(a, lambda x, y: bool(x > y))[0]
        return _np.max(a, axis=axis, **kw)

    amax = max

    def min(self, a, axis=None, **kw):
        if has_sym(a):
            if axis is not None:
                raise Escape('np.min with axis on symbolic array')
            return self._fold(a, lambda x, y: bool(x < y))[0]
        return _np.min(a, axis=axis, **kw)

    amin = min

    def _argfold(self, a, axis, better):
        A = _obj(a)
        if axis is None or A.ndim == 1:
            return self._fold(A, better)[1]
        # reduce along `axis`, exactly numpy's shape semantics
        A2 = _np.moveaxis(A, axis, -1)
        out = _np.empty(A2.shape[:-1], dtype=int)
        for idx in _np.ndindex(A2.shape[:-1]):
            out[idx] = self._fold(A2[idx], better)[1]
        return out

    def argmax(self, a, axis=None, **kw):
        if has_sym(a):
            # numpy on bool arrays: first True, or 0 when none (documented first-occurrence rule)
            return self._argfold(a, axis, lambda x, y: bool(x > y))
        return _np.argmax(a, axis=axis, **kw)

    def argmin(self, a, axis=None, **kw):
        if has_sym(a):
            return self._argfold(a, axis, lambda x, y: bool(x < y))
        return _np.argmin(a, axis=axis, **kw)

    nanargmin = argmin      # proxies are never NaN (reals)

    def ptp(self, a, **kw):
        return self.max(a) - self.min(a)

    def any(self, a, **kw):
        if has_sym(a):
            for v in _obj(a).ravel():
                if v:
                    return True
            return False
        return _np.any(a, **kw)

    def all(self, a, **kw):
        if has_sym(a):
            for v in _obj(a).ravel():
                if not v:
                    return False
            return True
        return _np.all(a, **kw)

    def where(self, cond, *a):
        if has_sym(cond) and not a:
            c = _obj(cond)
            if c.ndim != 1:
                raise Escape('np.where on a multi-dimensional symbolic condition')
            return (_np.array([i for i in range(len(c)) if c[i]], dtype=int),)      # forks per element
        if has_sym(cond) or any(has_sym(x) for x in a):
            raise Escape('np.where(cond, x, y) on symbolic values')
        return _np.where(cond, *a)

    def extract(self, condition, arr):
        cond = condition
        if has_sym(cond) or has_sym(arr):
            c = _obj(cond).ravel()
            v = _obj(arr).ravel()
            return _np.array([x for x, k in zip(v, c) if k], dtype=object)
        return _np.extract(cond, arr)

    # ---- predicates (documented formulas, over the reals)
    def isclose(self, a, b, rtol=1e-05, atol=1e-08, **kw):
        if has_sym(a) or has_sym(b):
            if isinstance(a, (list, tuple, _np.ndarray)) or isinstance(b, (list, tuple, _np.ndarray)):
                A, B = _np.broadcast_arrays(_obj(a), _obj(b))
                out = _np.empty(A.shape, dtype=object)
                for i in _np.ndindex(A.shape):
                    out[i] = self.isclose(A[i], B[i], rtol, atol)
                return out
            d = abs(a - b)
            return d <= atol + rtol * abs(b)
        return _np.isclose(a, b, rtol=rtol, atol=atol, **kw)

    def isnan(self, a):
        if has_sym(a):
            if isinstance(a, Sym):
                return False
            return _np.zeros(_np.shape(_obj(a)), dtype=bool)
        return _np.isnan(a)

    def isfinite(self, a):
        # reals: every symbolic value is finite
        if isinstance(a, Sym):
            return True
        if has_sym(a):
            o = _obj(a)
            return _np.array([True if isinstance(v, Sym) else bool(_np.isfinite(v)) for v in o.flat], dtype=bool).reshape(o.shape)
        return _np.isfinite(a)

    def isinf(self, a):
        if isinstance(a, Sym):
            return False
        if has_sym(a):
            o = _obj(a)
            return _np.array([False if isinstance(v, Sym) else bool(_np.isinf(v)) for v in o.flat], dtype=bool).reshape(o.shape)
        return _np.isinf(a)

    def allclose(self, a, b, rtol=1e-05, atol=1e-08, equal_nan=False):
        if has_sym(a) or has_sym(b) or isinstance(a, Sym) or isinstance(b, Sym):
            r = self.isclose(a, b, rtol=rtol, atol=atol)
            if isinstance(r, (Sym, bool, _np.bool_)):
                return bool(r)
            return all(bool(v) for v in _obj(r).flat)
        return _np.allclose(a, b, rtol=rtol, atol=atol, equal_nan=equal_nan)

    def isreal(self, a):
        if 'isreal' in stubs:
            return stubs['isreal'](a)
        return _np.isreal(a)

    def real(self, a):
        if has_sym(a):
            return a
        return _np.real(a)

    # ---- element-wise functions on lists containing proxies
    def _ew(self, name, a):
        if isinstance(a, Sym):
            return getattr(a, name)()
        if has_sym(a):
            return getattr(_np, name)(_obj(a))
        return getattr(_np, name)(a)

    def exp(self, a): return self._ew('exp', a)
    def log(self, a): return self._ew('log', a)
    def sqrt(self, a): return self._ew('sqrt', a)
    def sinh(self, a): return self._ew('sinh', a)
    def cosh(self, a): return self._ew('cosh', a)
    def square(self, a): return self._ew('square', a)

    def abs(self, a):
        if isinstance(a, Sym):
            return abs(a)
        return _np.abs(_obj(a) if has_sym(a) else a)

    absolute = abs

    def divide(self, a, b, **kw):
        if has_sym(a) or has_sym(b):
            return _obj(a) / _obj(b) if not (isinstance(a, Sym) or isinstance(b, Sym)) else a / b
        return _np.divide(a, b, **kw)

    def size(self, a, *args):
        return _np.size(_obj(a) if has_sym(a) else a, *args)

    def squeeze(self, a, *args, **kw):
        return _np.squeeze(_obj(a) if has_sym(a) else a, *args, **kw)

    def polyval(self, p, x):
        if has_sym(p) or has_sym(x):
            r = 0
            for c in p:
                r = r * x + c
            return r
        return _np.polyval(p, x)

    # ---- compiled solvers -> stubs
    def polyfit(self, x, y, deg, **kw):
        if 'polyfit' in stubs:
            return stubs['polyfit'](x, y, deg, **kw)
        if has_sym(x) or has_sym(y):
            raise Escape('np.polyfit on symbolic data without a stub')
        return _np.polyfit(x, y, deg, **kw)

    def roots(self, c):
        if 'roots' in stubs:
            return stubs['roots'](c)
        if has_sym(c):
            raise Escape('np.roots on symbolic coefficients without a stub')
        return _np.roots(c)

    @property
    def linalg(self):
        return _Linalg()


class _Linalg:
    def __getattr__(self, name):
        return getattr(_np.linalg, name)

    def lstsq(self, a, b, rcond=None):
        if 'lstsq' in stubs:
            return stubs['lstsq'](a, b, rcond)
        if has_sym(a) or has_sym(b):
            raise Escape('np.linalg.lstsq on symbolic data without a stub')
        return _np.linalg.lstsq(a, b, rcond=rcond)


np = _Shim()
