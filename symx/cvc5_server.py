"""A killable cvc5 process used to re-decide a sample of obligations with a second solver (thorough tier).
Same protocol as solver_server: one JSON request per line (smt2 text, timeout), one ANSWER line back."""
import json
import os
import select
import subprocess
import sys
import time


def _serve():
    import cvc5
    for line in sys.stdin:
        line = line.strip()
        if not line:
            continue
        req = json.loads(line)
        out = dict(r='unknown')
        try:
            slv = cvc5.Solver()
            slv.setOption('tlimit-per', str(int(req['timeout_ms'])))
            slv.setLogic('ALL')
            p = cvc5.InputParser(slv)
            p.setStringInput(cvc5.InputLanguage.SMT_LIB_2_6, req['smt2'], 'obligation')
            sm = p.getSymbolManager()
            res = None
            while True:
                cmd = p.nextCommand()
                if cmd.isNull():
                    break
                txt = cmd.invoke(slv, sm).strip()
                if txt:
                    if '(error' in txt:
                        raise RuntimeError(txt[:200])
                    res = txt.split()[-1]
            if res in ('sat', 'unsat', 'unknown'):
                out['r'] = res
        except Exception as e:
            out = dict(r='unknown', error=repr(e)[:300])
        sys.stdout.write('ANSWER ' + json.dumps(out) + '\n')
        sys.stdout.flush()


class Cvc5Client:
    def __init__(self):
        self.p = None
        self.restarts = 0

    def _start(self):
        here = os.path.dirname(os.path.dirname(os.path.abspath(__file__)))
        self.p = subprocess.Popen([sys.executable, '-m', 'symx.cvc5_server'], stdin=subprocess.PIPE, stdout=subprocess.PIPE,
                                  stderr=subprocess.DEVNULL, text=True, cwd=here, env=dict(os.environ, PYTHONPATH=here))

    def close(self):
        if self.p is not None:
            try:
                self.p.kill()
                self.p.wait(timeout=5)
            except Exception:
                pass
            self.p = None

    def ask(self, smt2, timeout_ms):
        """-> (verdict, error-or-None)"""
        if self.p is None or self.p.poll() is not None:
            self._start()
        try:
            self.p.stdin.write(json.dumps(dict(smt2=smt2, timeout_ms=timeout_ms)) + '\n')
            self.p.stdin.flush()
        except Exception:
            self.close()
            return 'unknown', 'pipe'
        deadline = time.time() + timeout_ms / 1000.0 + 3.0
        fd = self.p.stdout.fileno()
        while True:
            left = deadline - time.time()
            if left <= 0:
                break
            rl, _, _ = select.select([fd], [], [], left)
            if not rl:
                break
            line = self.p.stdout.readline()
            if not line:
                break
            if line.startswith('ANSWER '):
                out = json.loads(line[7:])
                return out.get('r', 'unknown'), out.get('error')
        self.close()
        self.restarts += 1
        return 'unknown', 'killed on hard timeout'


if __name__ == '__main__':
    _serve()
