"""A killable z3 process.  The prover ships every obligation to it as SMT-LIB2 text; if z3 does
not answer within the budget (its nonlinear procedures sometimes ignore both the soft timeout
and Z3_interrupt) the process is killed and restarted and the verdict is `unknown`."""
import json
import os
import select
import subprocess
import sys
import time
from fractions import Fraction


def _serve():
    import z3
    for line in sys.stdin:
        line = line.strip()
        if not line:
            continue
        req = json.loads(line)
        out = dict(r='unknown')
        try:
            s = z3.Solver()
            s.set('timeout', int(req['timeout_ms']))
            s.add(z3.parse_smt2_string(req['smt2']))
            r = str(s.check())
            out['r'] = r
            if r == 'sat' and req.get('inputs') is not None:
                m = s.model()
                env = {}
                for name, (sort, lo, hi) in req['inputs'].items():
                    zv = {'R': z3.Real, 'I': z3.Int, 'B': z3.Bool}[sort](name)
                    v = m.eval(zv, model_completion=False)
                    if z3.is_const(v) and v.decl().kind() == z3.Z3_OP_UNINTERPRETED:
                        # not constrained by the query: any in-range value
                        if sort == 'B':
                            env[name] = False
                        elif sort == 'I':
                            env[name] = lo if lo is not None else (hi if hi is not None else 0)
                        elif lo is not None and hi is not None:
                            env[name] = (float(lo) + float(hi)) / 2
                        elif lo is not None:
                            env[name] = float(lo) + 1.0
                        elif hi is not None:
                            env[name] = float(hi) - 1.0
                        else:
                            env[name] = 0.5
                        continue
                    if sort == 'B':
                        env[name] = bool(z3.is_true(v))
                    elif sort == 'I':
                        env[name] = v.as_long()
                    else:
                        if z3.is_algebraic_value(v):
                            v = v.approx(30)
                        env[name] = float(Fraction(v.numerator_as_long(), v.denominator_as_long()))
                out['env'] = env
        except Exception as e:
            out = dict(r='unknown', error=repr(e)[:300])
        sys.stdout.write('ANSWER ' + json.dumps(out) + '\n')
        sys.stdout.flush()


class SolverClient:
    def __init__(self):
        self.p = None
        self.restarts = 0

    def _start(self):
        here = os.path.dirname(os.path.dirname(os.path.abspath(__file__)))
        self.p = subprocess.Popen([sys.executable, '-m', 'symx.solver_server'], stdin=subprocess.PIPE, stdout=subprocess.PIPE,
                                  stderr=subprocess.DEVNULL, text=True, cwd=here, env=dict(os.environ, PYTHONPATH=here))

    def close(self):
        if self.p is not None:
            try:
                self.p.kill()
                self.p.wait(timeout=5)
            except Exception:
                pass
            self.p = None

    def ask(self, smt2, timeout_ms, inputs=None):
        """-> (verdict, env)"""
        if self.p is None or self.p.poll() is not None:
            self._start()
        req = json.dumps(dict(smt2=smt2, timeout_ms=timeout_ms, inputs=inputs))
        try:
            self.p.stdin.write(req + '\n')
            self.p.stdin.flush()
        except Exception:
            self.close()
            return 'unknown', None
        deadline = time.time() + timeout_ms / 1000.0 + 3.0
        fd = self.p.stdout.fileno()
        while True:
            left = deadline - time.time()
            if left <= 0:
                break
            rl, _, _ = select.select([fd], [], [], left)
            if not rl:
                break
            line = self.p.stdout.readline()
            if not line:
                break
            if line.startswith('ANSWER '):
                out = json.loads(line[7:])
                return out.get('r', 'unknown'), out.get('env')
        self.close()
        self.restarts += 1
        return 'unknown', None


if __name__ == '__main__':
    _serve()
