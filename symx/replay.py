"""Concrete replay of one obligation group on the UNINSTRUMENTED pmutt (plain floats, real
NumPy/SciPy) in a fresh interpreter.  Used for every solver counterexample before it is
reported, and as the replay command of a VIOLATION line."""
import importlib
import json
import os
import sys
import warnings

VERIF = os.path.dirname(os.path.dirname(os.path.abspath(__file__)))


_state = []
_state_ids = set()
_preloaded = [False]


def _reset_module_state():
    """module-level dict / list / set objects of the pmutt modules (memo tables, registries) are put back to their content at import,
    so that one replay cannot see what an earlier replay in the same server process stored there"""
    if not _preloaded[0]:
        _preloaded[0] = True
        try:
            import pkgutil
            import pmutt
            for m in pkgutil.walk_packages(pmutt.__path__, 'pmutt.'):
                if '.tests' in m.name or m.name.startswith('pmutt.examples'):
                    continue
                try:
                    importlib.import_module(m.name)
                except Exception:
                    pass
        except Exception:
            pass
    for name, mod in list(sys.modules.items()):
        if (name == 'pmutt' or name.startswith('pmutt.')) and mod is not None:
            for k, v in list(vars(mod).items()):
                if type(v) in (dict, list, set) and not k.startswith('__') and id(v) not in _state_ids:
                    _state_ids.add(id(v))
                    _state.append((v, type(v)(v)))
    for obj, snap in _state:
        if type(obj) is list:
            obj[:] = snap
        else:
            obj.clear()
            obj.update(snap)


def run(payload):
    if VERIF not in sys.path:
        sys.path.insert(0, VERIF)
    repo = os.environ.get('PMUTT_REPO', '/repo')
    if repo not in sys.path:
        sys.path.insert(0, repo)
    _reset_module_state()
    from symx import sched
    pid = payload['property']
    mod = importlib.import_module('checks.%s' % pid.lower())
    g = None
    for tier in ('quick', 'thorough'):
        for x in mod.groups(tier):
            if x['name'] == payload['group']:
                g = x
                break
        if g:
            break
    if g is None:
        return dict(error='unknown group %s' % payload['group'])
    cc = sched.ConcCtx(payload['env'])
    out = dict(results=[], exception=None)
    try:
        with warnings.catch_warnings():
            warnings.simplefilter('ignore')
            g['harness'](cc, **g.get('params', {}))
    except sched.Infeasible:
        out['infeasible'] = True
    except Exception as e:
        out['exception'] = [type(e).__name__, str(e)[:500]]
    out['results'] = [[r[0], r[1], r[2], r[3]] for r in cc.results]
    import pmutt
    out['pmutt_file'] = pmutt.__file__
    return out


def main():
    if len(sys.argv) > 1 and sys.argv[1] == '--server':
        for line in sys.stdin:
            line = line.strip()
            if not line:
                continue
            try:
                out = run(json.loads(line))
            except BaseException as e:
                out = dict(error=repr(e))
            sys.stdout.write('REPLAY-RESULT ' + json.dumps(out) + '\n')
            sys.stdout.flush()
        return 0
    if len(sys.argv) > 1 and sys.argv[1] == '--stdin':
        payload = json.loads(sys.stdin.read())
        print('REPLAY-RESULT ' + json.dumps(run(payload)))
        return 0
    payload = json.load(open(sys.argv[1]))
    out = run(payload)
    label = payload.get('label')
    bad = [r for r in out.get('results', []) if not r[1] and (label is None or r[0] == label)]
    print(json.dumps(out, indent=1))
    exc = out.get('exception')
    if bad or (exc and label and label.startswith('no-exception[') and exc[0] in label):
        print('REPRODUCED property=%s group=%s obligation=%s' % (payload['property'], payload['group'], label))
        return 1
    print('not reproduced')
    return 0


if __name__ == '__main__':
    sys.exit(main())
