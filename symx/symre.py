"""A small backtracking regular-expression interpreter over SymStr cells.

Patterns are parsed by CPython's own parser (re._parser), so the syntax accepted is exactly
Python's; the matcher implements the usual leftmost / greedy-with-backtracking semantics.  Every
test of a symbolic character against a literal or a class is a solver-decided fork, so on each
path the character classes are fixed and backtracking is deterministic.  Supported: literals,
classes, ., \\d \\w \\s, greedy and lazy repeats, groups (capturing / non-capturing), alternation,
^ $ anchors.  Anything else raises Escape (never a silent approximation).
"""
import re as _re
try:
    import re._parser as _parser
    import re._constants as _C
except ImportError:     # pragma: no cover
    import sre_parse as _parser
    import sre_constants as _C

from .proxy import Sym, Escape
from .symstr import SymStr, Tok, Blob, cell_eq, in_ranges, CLASSES, _truth, code


def _has_sym(s):
    return isinstance(s, SymStr)


class Match:
    def __init__(self, string, start, end, groups):
        self.string = string
        self._start, self._end = start, end
        self._groups = groups       # dict index -> (s, e) or None

    def _text(self, se):
        if se is None:
            return None
        return SymStr(self.string.cells[se[0]:se[1]])

    def group(self, *idx):
        if not idx:
            idx = (0,)
        out = []
        for i in idx:
            out.append(self._text((self._start, self._end)) if i == 0 else self._text(self._groups.get(i)))
        return out[0] if len(out) == 1 else tuple(out)

    def groups(self, default=None):
        n = max(self._groups) if self._groups else 0
        return tuple(self._text(self._groups.get(i)) if self._groups.get(i) is not None else default for i in range(1, n + 1))

    def start(self, i=0):
        return self.string._cell_to_pos(self._start if i == 0 else self._groups[i][0])

    def end(self, i=0):
        return self.string._cell_to_pos(self._end if i == 0 else self._groups[i][1])

    def span(self, i=0):
        return (self.start(i), self.end(i))

    def __bool__(self):
        return True


class Pattern:
    def __init__(self, pattern, flags=0):
        if flags:
            raise Escape('regular-expression flags on a symbolic string')
        self.pattern = pattern
        self.tree = _parser.parse(pattern)
        self.ngroups = self.tree.state.groups - 1

    # -- character tests
    def _test_in(self, c, items):
        neg = False
        conds = []
        for op, av in items:
            if op is _C.NEGATE:
                neg = True
            elif op is _C.LITERAL:
                conds.append(cell_eq(c, chr(av)))
            elif op is _C.RANGE:
                conds.append(in_ranges(c, [av]))
            elif op is _C.CATEGORY:
                conds.append(self._category(c, av))
            else:
                raise Escape('regex class item %s' % op)
        r = False
        for x in conds:
            if x is True:
                r = True
                break
            if x is False:
                continue
            r = x if r is False else (r | x)
        if isinstance(r, bool):
            return (not r) if neg else r
        return ~r if neg else r

    def _category(self, c, cat):
        name = {_C.CATEGORY_DIGIT: ('digit', False), _C.CATEGORY_NOT_DIGIT: ('digit', True),
                _C.CATEGORY_WORD: ('word', False), _C.CATEGORY_NOT_WORD: ('word', True),
                _C.CATEGORY_SPACE: ('space', False), _C.CATEGORY_NOT_SPACE: ('space', True)}.get(cat)
        if name is None:
            raise Escape('regex category %s' % cat)
        r = in_ranges(c, CLASSES[name[0]])
        if name[1]:
            return (not r) if isinstance(r, bool) else ~r
        return r

    def _char_ok(self, c):
        if isinstance(c, (Tok, Blob)):
            raise Escape('regular expression applied to a formatted number / opaque run')

    # -- matcher: generator of (end position, groups) in priority order
    def _m(self, seq, i, s, pos, groups, cont):
        """match seq[i:] at pos; cont(pos, groups) continues; returns first truthy result of cont"""
        if i == len(seq):
            return cont(pos, groups)
        op, av = seq[i]
        cells = s.cells
        n = len(cells)

        def nxt(p, g):
            return self._m(seq, i + 1, s, p, g, cont)
        if op is _C.LITERAL:
            if pos < n:
                self._char_ok(cells[pos])
                if _truth(cell_eq(cells[pos], chr(av))):
                    return nxt(pos + 1, groups)
            return None
        if op is _C.NOT_LITERAL:
            if pos < n:
                self._char_ok(cells[pos])
                if not _truth(cell_eq(cells[pos], chr(av))):
                    return nxt(pos + 1, groups)
            return None
        if op is _C.ANY:
            if pos < n:
                self._char_ok(cells[pos])
                if not _truth(cell_eq(cells[pos], '\n')):
                    return nxt(pos + 1, groups)
            return None
        if op is _C.IN:
            if pos < n:
                self._char_ok(cells[pos])
                if _truth(self._test_in(cells[pos], av)):
                    return nxt(pos + 1, groups)
            return None
        if op is _C.AT:
            if av in (_C.AT_BEGINNING, _C.AT_BEGINNING_STRING):
                return nxt(pos, groups) if pos == 0 else None
            if av in (_C.AT_END, _C.AT_END_STRING):
                if pos == n or (av is _C.AT_END and pos == n - 1 and cell_eq(cells[pos], '\n') is True):
                    return nxt(pos, groups)
                return None
            raise Escape('regex anchor %s' % av)
        if op is _C.SUBPATTERN:
            gid, add_flags, del_flags, sub = av
            if add_flags or del_flags:
                raise Escape('inline regex flags')

            def after(p, g):
                g2 = dict(g)
                if gid is not None:
                    g2[gid] = (pos, p)
                return nxt(p, g2)
            return self._m(list(sub), 0, s, pos, groups, after)
        if op is _C.BRANCH:
            _, alts = av
            for alt in alts:
                r = self._m(list(alt), 0, s, pos, groups, nxt)
                if r is not None:
                    return r
            return None
        if op in (_C.MAX_REPEAT, _C.MIN_REPEAT):
            lo, hi, sub = av
            sub = list(sub)
            greedy = op is _C.MAX_REPEAT

            def rep(count, p, g):
                if greedy:
                    if hi is _C.MAXREPEAT or count < hi:
                        def again(p2, g2):
                            if p2 == p:
                                return None         # empty iteration: stop (avoids infinite loops)
                            return rep(count + 1, p2, g2)
                        r = self._m(sub, 0, s, p, g, again)
                        if r is not None:
                            return r
                    if count >= lo:
                        return nxt(p, g)
                    return None
                else:
                    if count >= lo:
                        r = nxt(p, g)
                        if r is not None:
                            return r
                    if hi is _C.MAXREPEAT or count < hi:
                        def again(p2, g2):
                            if p2 == p:
                                return None
                            return rep(count + 1, p2, g2)
                        return self._m(sub, 0, s, p, g, again)
                    return None
            return rep(0, pos, groups)
        if op in (_C.ASSERT, _C.ASSERT_NOT):
            direction, sub = av
            sub_seq = list(sub)
            if direction < 0:
                lo, hi = sub.getwidth()
                if lo != hi:
                    raise Escape('variable-width look-behind')
                start = pos - lo
                if start < 0:
                    found = None
                else:
                    found = self._m(sub_seq, 0, s, start, groups, lambda p, g: (p, g) if p == pos else None)
            else:
                found = self._m(sub_seq, 0, s, pos, groups, lambda p, g: (p, g))
            if op is _C.ASSERT:
                return nxt(pos, found[1]) if found is not None else None
            return nxt(pos, groups) if found is None else None
        raise Escape('regular-expression construct %s is not supported on symbolic strings' % op)

    def _match_at(self, s, pos, full=False):
        seq = list(self.tree)

        def done(p, g):
            if full and p != len(s.cells):
                return None
            return (p, g)
        r = self._m(seq, 0, s, pos, {}, done)
        if r is None:
            return None
        return Match(s, pos, r[0], r[1])

    # -- public API
    def match(self, s, pos=0):
        if not _has_sym(s):
            return _re.compile(self.pattern).match(s, pos)
        return self._match_at(s, s._pos_to_cell(pos))

    def fullmatch(self, s):
        if not _has_sym(s):
            return _re.compile(self.pattern).fullmatch(s)
        return self._match_at(s, 0, full=True)

    def search(self, s, pos=0):
        if not _has_sym(s):
            return _re.compile(self.pattern).search(s, pos)
        for p in range(s._pos_to_cell(pos), len(s.cells) + 1):
            m = self._match_at(s, p)
            if m is not None:
                return m
        return None

    def finditer(self, s):
        if not _has_sym(s):
            yield from _re.compile(self.pattern).finditer(s)
            return
        p = 0
        n = len(s.cells)
        while p <= n:
            m = self._match_at(s, p)
            if m is None:
                p += 1
                continue
            yield m
            p = m._end if m._end > m._start else m._end + 1

    def findall(self, s):
        if not _has_sym(s):
            return _re.compile(self.pattern).findall(s)
        out = []
        for m in self.finditer(s):
            if self.ngroups == 0:
                out.append(m.group(0))
            elif self.ngroups == 1:
                out.append(m.group(1) if m.group(1) is not None else SymStr(()))
            else:
                out.append(tuple(g if g is not None else SymStr(()) for g in m.groups()))
        return out

    def sub(self, repl, s, count=0):
        if not _has_sym(s):
            return _re.compile(self.pattern).sub(repl, s, count)
        if callable(repl) or '\\' in repl:
            raise Escape('regex substitution with a callable / back-references on a symbolic string')
        out, last, k = [], 0, 0
        for m in self.finditer(s):
            out.extend(s.cells[last:m._start])
            out.extend(repl)
            last = m._end
            k += 1
            if count and k >= count:
                break
        out.extend(s.cells[last:])
        return SymStr(out)

    def split(self, s, maxsplit=0):
        if not _has_sym(s):
            return _re.compile(self.pattern).split(s, maxsplit)
        if self.ngroups:
            raise Escape('regex split with groups on a symbolic string')
        out, last, k = [], 0, 0
        for m in self.finditer(s):
            if m._end == m._start:
                continue
            out.append(SymStr(s.cells[last:m._start]))
            last = m._end
            k += 1
            if maxsplit and k >= maxsplit:
                break
        out.append(SymStr(s.cells[last:]))
        return out


_cache = {}


def compile(pattern, flags=0):
    key = (pattern, flags)
    if key not in _cache:
        _cache[key] = Pattern(pattern, flags)
    return _cache[key]


class _Module:
    """what `re` resolves to inside instrumented modules"""
    def __getattr__(self, name):
        return getattr(_re, name)

    def compile(self, pattern, flags=0):
        return _Compiled(pattern, flags)

    def _dispatch(self, name, pattern, s, *a, **kw):
        if isinstance(s, SymStr):
            flags = kw.pop('flags', 0)
            return getattr(compile(pattern, flags), name)(s, *a, **kw)
        return getattr(_re, name)(pattern, s, *a, **kw)

    def search(self, pattern, s, *a, **kw): return self._dispatch('search', pattern, s, *a, **kw)
    def match(self, pattern, s, *a, **kw): return self._dispatch('match', pattern, s, *a, **kw)
    def fullmatch(self, pattern, s, *a, **kw): return self._dispatch('fullmatch', pattern, s, *a, **kw)
    def findall(self, pattern, s, *a, **kw): return self._dispatch('findall', pattern, s, *a, **kw)
    def finditer(self, pattern, s, *a, **kw): return self._dispatch('finditer', pattern, s, *a, **kw)
    def split(self, pattern, s, *a, **kw): return self._dispatch('split', pattern, s, *a, **kw)

    def sub(self, pattern, repl, s, *a, **kw):
        if isinstance(s, SymStr):
            return compile(pattern, kw.pop('flags', 0)).sub(repl, s, *a, **kw)
        return _re.sub(pattern, repl, s, *a, **kw)


class _Compiled:
    def __init__(self, pattern, flags):
        self.pattern, self.flags = pattern, flags
        self._real = _re.compile(pattern, flags)

    def __getattr__(self, name):
        def f(s, *a, **kw):
            if isinstance(s, SymStr):
                return getattr(compile(self.pattern, self.flags), name)(s, *a, **kw)
            return getattr(self._real, name)(s, *a, **kw)
        return f


module = _Module()
