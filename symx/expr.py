"""Hash-consed term DAG for symx.

Sorts: 'R' (real), 'I' (int), 'B' (bool).  Nodes are interned structurally (never on id()
of temporaries), so syntactically equal sub-terms are the same object and abstraction
variables (exp bases, log atoms) are shared.
"""
import math
from fractions import Fraction

__all__ = ['E', 'const', 'iconst', 'var', 'add', 'sub', 'mul', 'div', 'neg', 'powi', 'powq',
           'exp', 'log', 'ite', 'lt', 'le', 'eq', 'ne', 'gt', 'ge', 'and_', 'or_', 'not_',
           'TRUE', 'FALSE', 'snap', 'D', 'ev', 'free_vars', 'to_real', 'trunc', 'floor_',
           'idiv', 'imod', 'uf', 'integral', 'size', 'subst', 'show']


class E:
    __slots__ = ('op', 'args', 'sort', 'uid', '__weakref__')

    def __repr__(self):
        return 'E<%s>' % show(self, 6)


_TABLE = {}
_NEXT = [0]


def _mk(op, sort, *args):
    key = (op, sort) + tuple(a.uid if isinstance(a, E) else a for a in args)
    n = _TABLE.get(key)
    if n is None:
        n = E()
        n.op = op
        n.args = args
        n.sort = sort
        n.uid = _NEXT[0]
        _NEXT[0] += 1
        _TABLE[key] = n
    return n


def reset():
    """forget every interned node (between independent obligation groups)"""
    _TABLE.clear()
    global TRUE, FALSE
    TRUE = _mk('cb', 'B', True)
    FALSE = _mk('cb', 'B', False)


# ---------------------------------------------------------------- constants
def _simplest(lo, hi):
    if lo > hi:
        lo, hi = hi, lo
    if lo <= 0 <= hi:
        return Fraction(0)
    if hi < 0:
        return -_simplest(-hi, -lo)
    fl = math.floor(lo)
    if fl == lo:
        return Fraction(fl)
    if fl + 1 <= hi:
        return Fraction(fl + 1)
    return fl + 1 / _simplest(1 / (hi - fl), 1 / (lo - fl))


def snap(x):
    """float -> the rational the programmer meant (DESIGN 2.3 'Constants')."""
    if isinstance(x, Fraction):
        return x
    if isinstance(x, int):
        return Fraction(x)
    x = float(x)
    if x == 0:
        return Fraction(0)
    if not math.isfinite(x):
        raise ValueError('non-finite constant %r' % x)
    r = repr(x)
    mant = r.lower().split('e')[0].replace('-', '').replace('.', '').lstrip('0')
    if len(mant) <= 12:
        return Fraction(r)
    fx = Fraction(x)
    ulp = Fraction(math.ulp(x))
    s = _simplest(fx - 2 * ulp, fx + 2 * ulp)
    # only accept the 'simple' rational when it really is simple; else the exact double
    if s.denominator <= 10 ** 6 or s.numerator.bit_length() + s.denominator.bit_length() < 70:
        return s
    return fx


def const(v):
    if isinstance(v, E):
        return v
    if isinstance(v, bool):
        return _mk('c', 'R', Fraction(int(v)))
    if isinstance(v, Fraction):
        return _mk('c', 'R', v)
    if isinstance(v, int):
        return _mk('c', 'R', Fraction(v))
    try:
        import numpy as np
        if isinstance(v, np.integer):
            return _mk('c', 'R', Fraction(int(v)))
        if isinstance(v, np.bool_):
            return _mk('c', 'R', Fraction(int(v)))
    except ImportError:
        pass
    return _mk('c', 'R', snap(float(v)))


def iconst(v):
    return _mk('c', 'I', Fraction(int(v)))


TRUE = _mk('cb', 'B', True)
FALSE = _mk('cb', 'B', False)


def bconst(b):
    return TRUE if b else FALSE


def var(name, sort='R'):
    return _mk('v', sort, name)


def isc(e):
    return e.op == 'c'


def cval(e):
    return e.args[0]


def _is0(e):
    return e.op == 'c' and e.args[0] == 0


def _is1(e):
    return e.op == 'c' and e.args[0] == 1


def _nsort(a, b):
    return 'I' if (a.sort == 'I' and b.sort == 'I') else 'R'


def _c(v, sort):
    return _mk('c', sort, Fraction(v))


def to_real(a):
    if a.sort == 'R':
        return a
    if a.sort == 'B':
        return ite(a, const(1), const(0))
    if a.op == 'c':
        return _mk('c', 'R', a.args[0])
    return _mk('i2r', 'R', a)


def add(a, b):
    s = _nsort(a, b)
    if a.sort == 'B':
        a = to_real(a)
    if b.sort == 'B':
        b = to_real(b)
    if a.op == 'c' and b.op == 'c':
        return _c(a.args[0] + b.args[0], s)
    if _is0(a):
        return b if b.sort == s else to_real(b)
    if _is0(b):
        return a if a.sort == s else to_real(a)
    if s == 'R':
        a, b = to_real(a), to_real(b)
    # canonical order for commutativity (helps sharing)
    if a.uid > b.uid:
        a, b = b, a
    return _mk('+', s, a, b)


def mul(a, b):
    s = _nsort(a, b)
    if a.sort == 'B':
        a = to_real(a)
    if b.sort == 'B':
        b = to_real(b)
    if a.op == 'c' and b.op == 'c':
        return _c(a.args[0] * b.args[0], s)
    if _is0(a) or _is0(b):
        return _c(0, s)
    if _is1(a):
        return b if b.sort == s else to_real(b)
    if _is1(b):
        return a if a.sort == s else to_real(a)
    if s == 'R':
        a, b = to_real(a), to_real(b)
    # fold constant into an existing constant factor: c1*(c2*x) -> (c1*c2)*x
    if a.op == 'c' and b.op == '*' and b.args[0].op == 'c':
        return mul(_c(a.args[0] * b.args[0].args[0], s), b.args[1])
    if b.op == 'c' and a.op == '*' and a.args[0].op == 'c':
        return mul(_c(b.args[0] * a.args[0].args[0], s), a.args[1])
    if b.op == 'c' or (a.op != 'c' and a.uid > b.uid):
        a, b = b, a
    return _mk('*', s, a, b)


def neg(a):
    return mul(_c(-1, a.sort if a.sort == 'I' else 'R'), a)


def sub(a, b):
    return add(a, neg(b))


def div(a, b):
    a, b = to_real(a), to_real(b)
    if b.op == 'c' and b.args[0] != 0:
        return mul(_c(1 / b.args[0], 'R'), a)
    # pull constant factors out of quotients: (c*x)/y -> c*(x/y), x/(c*y) -> (1/c)*(x/y)
    if a.op == '*' and a.args[0].op == 'c':
        return mul(a.args[0], div(a.args[1], b))
    if b.op == '*' and b.args[0].op == 'c' and b.args[0].args[0] != 0:
        return mul(_c(1 / b.args[0].args[0], 'R'), div(a, b.args[1]))
    if _is0(a) and not _is0(b):
        # 0/x: keep definedness obligation by keeping the node unless x is a constant
        pass
    return _mk('/', 'R', a, b)


def powi(a, n):
    n = int(n)
    if n == 0:
        return _c(1, a.sort)
    if n < 0:
        return div(const(1), powi(a, -n))
    if a.op == 'c':
        return _c(a.args[0] ** n, a.sort)
    r = a
    for _ in range(n - 1):
        r = mul(r, a)
    return r


def exp(a):
    a = to_real(a)
    if _is0(a):
        return const(1)
    if a.op == 'log':
        return a.args[0]
    return _mk('exp', 'R', a)


def log(a):
    """log with products/quotients/powers expanded into sums of log(atom) (each atom's positivity
    becomes a definedness side obligation when encoded)"""
    a = to_real(a)
    if _is1(a):
        return const(0)
    if a.op == 'exp':
        return a.args[0]
    if a.op == '*':
        return add(log(a.args[0]), log(a.args[1]))
    if a.op == '/':
        return sub(log(a.args[0]), log(a.args[1]))
    if a.op == 'c' and a.args[0] <= 0:
        raise ValueError('log of non-positive constant %s' % a.args[0])
    return _mk('log', 'R', a)


def powq(a, q):
    """a ** q for rational q (a > 0 is a side obligation produced by log)."""
    q = Fraction(q)
    if q.denominator == 1:
        return powi(a, q.numerator)
    return exp(mul(const(q), log(a)))


def ite(c, a, b):
    if c is TRUE:
        return a
    if c is FALSE:
        return b
    if a is b:
        return a
    if a.sort != b.sort:
        a, b = to_real(a), to_real(b)
    return _mk('ite', a.sort, c, a, b)


def _cmp(op, a, b):
    if a.sort == 'B':
        a = to_real(a)
    if b.sort == 'B':
        b = to_real(b)
    if a.op == 'c' and b.op == 'c':
        x, y = a.args[0], b.args[0]
        return bconst({'lt': x < y, 'le': x <= y, 'eq': x == y}[op])
    if a is b:
        return bconst(op != 'lt')
    if a.sort != b.sort:
        a, b = to_real(a), to_real(b)
    if op == 'eq' and a.uid > b.uid:
        a, b = b, a
    return _mk(op, 'B', a, b)


def lt(a, b):
    return _cmp('lt', a, b)


def le(a, b):
    return _cmp('le', a, b)


def gt(a, b):
    return _cmp('lt', b, a)


def ge(a, b):
    return _cmp('le', b, a)


def eq(a, b):
    if a.sort == 'B' and b.sort == 'B':
        return or_(and_(a, b), and_(not_(a), not_(b)))
    return _cmp('eq', a, b)


def ne(a, b):
    return not_(eq(a, b))


def not_(a):
    if a is TRUE:
        return FALSE
    if a is FALSE:
        return TRUE
    if a.op == 'not':
        return a.args[0]
    return _mk('not', 'B', a)


def and_(*xs):
    out = []
    for x in xs:
        if x is FALSE:
            return FALSE
        if x is TRUE:
            continue
        if x.op == 'and':
            out.extend(x.args)
        else:
            out.append(x)
    if not out:
        return TRUE
    if len(out) == 1:
        return out[0]
    return _mk('and', 'B', *out)


def or_(*xs):
    out = []
    for x in xs:
        if x is TRUE:
            return TRUE
        if x is FALSE:
            continue
        if x.op == 'or':
            out.extend(x.args)
        else:
            out.append(x)
    if not out:
        return FALSE
    if len(out) == 1:
        return out[0]
    return _mk('or', 'B', *out)


def trunc(a):
    """int(x): truncation toward zero, real -> int"""
    if a.sort == 'I':
        return a
    if a.op == 'c':
        return iconst(int(a.args[0]))
    if a.op == 'i2r':
        return a.args[0]
    return _mk('trunc', 'I', a)


def floor_(a):
    if a.sort == 'I':
        return a
    if a.op == 'c':
        return iconst(math.floor(a.args[0]))
    if a.op == 'i2r':
        return a.args[0]
    return _mk('floor', 'I', a)


def idiv(a, b):
    if a.op == 'c' and b.op == 'c':
        return iconst(int(a.args[0]) // int(b.args[0]))
    return _mk('idiv', 'I', a, b)


def imod(a, b):
    if a.op == 'c' and b.op == 'c':
        return iconst(int(a.args[0]) % int(b.args[0]))
    return _mk('imod', 'I', a, b)


def uf(name, sort, *args):
    """uninterpreted function application (stub results that must be functions of their
    arguments)"""
    return _mk('uf', sort, name, *args)


def integral(integrand, xname, lo, hi):
    """opaque definite integral of `integrand` (a term in variable xname) from lo to hi"""
    return _mk('int', 'R', integrand, xname, lo, hi)


# ---------------------------------------------------------------- traversal
def children(e):
    return [a for a in e.args if isinstance(a, E)]


def walk(roots):
    seen = set()
    out = []
    stack = list(roots)
    while stack:
        e = stack.pop()
        if e.uid in seen:
            continue
        seen.add(e.uid)
        out.append(e)
        stack.extend(children(e))
    return out


def size(e):
    return len(walk([e]))


def free_vars(roots):
    if isinstance(roots, E):
        roots = [roots]
    bound = set()
    res = {}
    for e in walk(roots):
        if e.op == 'v':
            res[e.args[0]] = e
        elif e.op == 'int':
            bound.add(e.args[1])
    for b in bound:
        res.pop(b, None)
    return res


def subst(e, mapping, _memo=None):
    """replace variables (by name) with terms"""
    memo = {} if _memo is None else _memo

    def go(n):
        r = memo.get(n.uid)
        if r is not None:
            return r
        op = n.op
        if op == 'v':
            r = mapping.get(n.args[0], n)
        elif op in ('c', 'cb'):
            r = n
        else:
            a = [go(x) if isinstance(x, E) else x for x in n.args]
            r = rebuild(op, n.sort, a)
        memo[n.uid] = r
        return r
    return go(e)


def rebuild(op, sort, a):
    if op == '+':
        return add(a[0], a[1])
    if op == '*':
        return mul(a[0], a[1])
    if op == '/':
        return div(a[0], a[1])
    if op == 'exp':
        return exp(a[0])
    if op == 'log':
        return log(a[0])
    if op == 'ite':
        return ite(a[0], a[1], a[2])
    if op in ('lt', 'le'):
        return _cmp(op, a[0], a[1])
    if op == 'eq':
        return eq(a[0], a[1])
    if op == 'not':
        return not_(a[0])
    if op == 'and':
        return and_(*a)
    if op == 'or':
        return or_(*a)
    if op == 'i2r':
        return to_real(a[0])
    if op == 'trunc':
        return trunc(a[0])
    if op == 'floor':
        return floor_(a[0])
    if op == 'idiv':
        return idiv(a[0], a[1])
    if op == 'imod':
        return imod(a[0], a[1])
    if op == 'uf':
        return uf(a[0], sort, *a[1:])
    if op == 'int':
        return integral(a[0], a[1], a[2], a[3])
    raise NotImplementedError(op)


# ---------------------------------------------------------------- derivative
def D(e, xname, _memo=None):
    """symbolic partial derivative with respect to the variable named xname"""
    memo = {} if _memo is None else _memo

    def go(n):
        r = memo.get(n.uid)
        if r is not None:
            return r
        op = n.op
        if op == 'c':
            r = const(0)
        elif op == 'v':
            r = const(1 if n.args[0] == xname else 0)
        elif op == '+':
            r = add(go(n.args[0]), go(n.args[1]))
        elif op == '*':
            a, b = n.args
            r = add(mul(go(a), b), mul(a, go(b)))
        elif op == '/':
            a, b = n.args
            da, db = go(a), go(b)
            if _is0(db):
                r = div(da, b)
            else:
                r = div(sub(mul(da, b), mul(a, db)), mul(b, b))
        elif op == 'exp':
            r = mul(n, go(n.args[0]))
        elif op == 'log':
            r = div(go(n.args[0]), n.args[0])
        elif op == 'ite':
            if xname in free_vars(n.args[0]):
                raise NotImplementedError('derivative through a condition on %s' % xname)
            r = ite(n.args[0], go(n.args[1]), go(n.args[2]))
        elif op == 'i2r':
            if xname in free_vars(n):
                raise NotImplementedError('derivative of int term')
            r = const(0)
        elif op == 'int':
            f, bx, lo, hi = n.args
            if xname in free_vars(f) and xname != bx:
                raise NotImplementedError('integrand depends on %s' % xname)
            r = sub(mul(subst(f, {bx: hi}), go(hi)), mul(subst(f, {bx: lo}), go(lo)))
        elif op == 'uf':
            if any(isinstance(a, E) and xname in free_vars(a) for a in n.args):
                raise NotImplementedError('derivative of uninterpreted function')
            r = const(0)
        else:
            raise NotImplementedError('D(%s)' % op)
        memo[n.uid] = r
        return r
    return go(e)


# ---------------------------------------------------------------- evaluation
class EvalError(Exception):
    pass


def ev(e, env, mode='float', absenv=None, _memo=None):
    """evaluate a term.  mode 'float': IEEE doubles with math.exp/log.
    mode 'frac': exact Fractions; exp/log nodes take (stable) pseudo-random rational values
    stored in absenv keyed by node uid -- used only to guess proportionality of exp arguments
    (the guess is proved afterwards)."""
    memo = {} if _memo is None else _memo
    fl = mode == 'float'

    def go(n):
        if n.uid in memo:
            return memo[n.uid]
        op = n.op
        if op == 'c':
            r = float(n.args[0]) if fl and n.sort == 'R' else (int(n.args[0]) if n.sort == 'I' else n.args[0])
        elif op == 'cb':
            r = n.args[0]
        elif op == 'v':
            try:
                r = env[n.args[0]]
            except KeyError:
                raise EvalError('unbound variable %s' % n.args[0])
        elif op == '+':
            r = go(n.args[0]) + go(n.args[1])
        elif op == '*':
            r = go(n.args[0]) * go(n.args[1])
        elif op == '/':
            d = go(n.args[1])
            if d == 0:
                raise EvalError('division by zero')
            r = go(n.args[0]) / d
        elif op == 'exp':
            if fl:
                try:
                    r = math.exp(go(n.args[0]))
                except OverflowError:
                    raise EvalError('exp overflow')
            else:
                go(n.args[0])
                r = _absval(absenv, n)
        elif op == 'log':
            if fl:
                a = go(n.args[0])
                if a <= 0:
                    raise EvalError('log of non-positive')
                r = math.log(a)
            else:
                go(n.args[0])
                r = _absval(absenv, n)
        elif op == 'ite':
            r = go(n.args[1]) if go(n.args[0]) else go(n.args[2])
        elif op == 'lt':
            r = go(n.args[0]) < go(n.args[1])
        elif op == 'le':
            r = go(n.args[0]) <= go(n.args[1])
        elif op == 'eq':
            r = go(n.args[0]) == go(n.args[1])
        elif op == 'not':
            r = not go(n.args[0])
        elif op == 'and':
            r = all(go(a) for a in n.args)
        elif op == 'or':
            r = any(go(a) for a in n.args)
        elif op == 'i2r':
            r = go(n.args[0])
            r = float(r) if fl else Fraction(r)
        elif op == 'trunc':
            r = int(go(n.args[0]))
        elif op == 'floor':
            r = math.floor(go(n.args[0]))
        elif op == 'idiv':
            r = go(n.args[0]) // go(n.args[1])
        elif op == 'imod':
            r = go(n.args[0]) % go(n.args[1])
        elif op == 'int':
            if not fl:
                go(n.args[2]); go(n.args[3])
                r = _absval(absenv, n)
            else:
                from scipy.integrate import quad
                f, bx, lo, hi = n.args
                e2 = dict(env)

                def fx(x):
                    e2[bx] = x
                    return ev(f, e2, 'float')
                r = quad(fx, go(lo), go(hi))[0]
        elif op == 'uf':
            key = (n.args[0],) + tuple(go(a) if isinstance(a, E) else a for a in n.args[1:])
            ufenv = env.get('__uf__')
            if ufenv is None or key not in ufenv:
                raise EvalError('uninterpreted %r' % (key,))
            r = ufenv[key]
        else:
            raise NotImplementedError(op)
        memo[n.uid] = r
        return r
    return go(e)


def _absval(absenv, n):
    if absenv is None:
        raise EvalError('transcendental in exact mode')
    v = absenv.get(n.uid)
    if v is None:
        import random
        rnd = random.Random(n.uid * 7919 + 13 + 104729 * absenv.get('__salt__', 0))
        v = Fraction(rnd.randint(3, 997), rnd.randint(2, 113))
        absenv[n.uid] = v
    return v


# ---------------------------------------------------------------- printing
def show(e, depth=8):
    if not isinstance(e, E):
        return repr(e)
    op = e.op
    if op == 'c':
        f = e.args[0]
        return str(f.numerator) if f.denominator == 1 else '%s/%s' % (f.numerator, f.denominator)
    if op == 'cb':
        return str(e.args[0])
    if op == 'v':
        return e.args[0]
    if depth <= 0:
        return '...'
    a = [show(x, depth - 1) for x in e.args]
    if op in ('+', '*', '/'):
        return '(%s %s %s)' % (a[0], op, a[1])
    if op in ('lt', 'le', 'eq'):
        return '(%s %s %s)' % (a[0], {'lt': '<', 'le': '<=', 'eq': '=='}[op], a[1])
    return '%s(%s)' % (op, ', '.join(a))
