"""term DAG -> z3.

Reals are encoded division-free as (numerator, denominator) polynomial pairs; relations are
cross-multiplied; every divisor and every log argument produces a separate *definedness*
side obligation.  exp(.) is abstracted: arguments that are rational multiples of one another
share one positive base variable y (exp(k*u) = y**k), the proportionality being a side
obligation proved by the solver.  Different groups are independent positive variables with
only sign facts -- an over-approximation of the real exp, so `unsat` is sound.  log(atom) is a
free variable with sign facts, log(const)/exp(const) are boxed in 1e-25 rational intervals.
"""
from fractions import Fraction
from math import lcm
import z3
from . import expr as X


def _rv(fr):
    fr = Fraction(fr)
    if fr.denominator == 1:
        return z3.RealVal(fr.numerator)
    return z3.RealVal(str(fr.numerator) + '/' + str(fr.denominator))


_ONE = None
DEFAULT_QV = [False]     # name quotients in order comparisons (set per obligation group)


class Encoder:
    def __init__(self, roots=(), group=True, inputs=None):
        self.z = {}          # var name -> z3 const
        self.memo = {}       # uid -> encoding
        self.cons = []       # facts about abstraction variables (asserted)
        self.side = []       # (z3 bool, text): definedness / proportionality obligations
        self.expmap = {}     # exp node uid -> (num, den)
        self.nfresh = 0
        self.absenv = {}
        self.n_groups = 0
        self.keep = []
        self.quotient_vars = DEFAULT_QV[0]
        self.inputs = inputs
        self.logatoms = []      # (atom expr, sample values, z3 var)
        self.logatoms_all = []  # (atom expr, z3 var) for every distinct log atom
        self._samples = None
        self.qmemo = {}
        if group and roots:
            self._group_exps(list(roots))

    # ------------------------------------------------------------------ variables
    def zvar(self, name, sort):
        v = self.z.get(name)
        if v is None:
            v = {'R': z3.Real, 'I': z3.Int, 'B': z3.Bool}[sort](name)
            self.z[name] = v
        return v

    def fresh(self, prefix, sort='R'):
        self.nfresh += 1
        return {'R': z3.Real, 'I': z3.Int, 'B': z3.Bool}[sort]('%s!%d' % (prefix, self.nfresh))

    # ------------------------------------------------------------------ exp grouping
    def _group_exps(self, roots):
        """find a basis of the exp arguments over Q: arg_i = sum_j k_ij * base_j  (guessed from exact
        evaluation at random rational points, then proved as a side obligation), so that
        exp(arg_i) = prod_j y_j ** k_ij with one positive variable per basis element."""
        exps = [n for n in X.walk(roots) if n.op == 'exp']
        if not exps:
            return
        exps.sort(key=lambda n: n.uid)
        fv = X.free_vars([n.args[0] for n in exps])
        import random
        rnd = random.Random(12345)
        m = len(exps) + 3
        samples = []
        for si in range(m):
            env = {}
            for name, v in fv.items():
                env[name] = Fraction(rnd.randint(3, 997), rnd.randint(2, 113)) if v.sort == 'R' else rnd.randint(2, 9)
            samples.append((env, {'__salt__': si}))
        basis = []      # [(arg_expr, vec, node)]
        reps = []       # per exp node: dict basis_index -> Fraction, or None (own variable)
        for n in exps:
            try:
                vec = [Fraction(X.ev(n.args[0], env, 'frac', ab)) for env, ab in samples]
            except Exception:
                reps.append(None)
                continue
            k = _solve([b[1] for b in basis], vec) if basis else None
            if k is not None and all(c.denominator <= 24 and abs(c.numerator) <= 48 for c in k):
                reps.append({j: c for j, c in enumerate(k) if c != 0})
            else:
                basis.append((n.args[0], vec, n))
                reps.append({len(basis) - 1: Fraction(1)})
        self._pending_groups = (exps, basis, reps)

    def _finish_groups(self):
        pg = getattr(self, '_pending_groups', None)
        if not pg:
            return
        self._pending_groups = None
        exps, basis, reps = pg
        Ls = [1] * len(basis)
        for r in reps:
            if r:
                for j, c in r.items():
                    Ls[j] = lcm(Ls[j], c.denominator)
        ys = []
        for bi, (barg, _, _) in enumerate(basis):
            L = Ls[bi]
            y = z3.Real('expb!%d' % bi)
            ys.append(y)
            self.n_groups += 1
            self.cons.append(y > 0)
            bn, bd = self.real(barg)
            sgn = bn * bd if bd is not None else bn
            self.cons += [z3.Implies(sgn > 0, y > 1), z3.Implies(sgn < 0, y < 1), z3.Implies(sgn == 0, y == 1)]
            if barg.op == 'c':
                lo, hi = _exp_box(barg.args[0] / L)
                self.cons += [y >= _rv(lo), y <= _rv(hi)]
            lk = _single_log(barg)
            if lk is not None:
                q, atom = lk
                q = q / L          # y = exp(q*log(atom)) = atom**q
                an, ad = self.real(atom)
                p, r = abs(q.numerator), q.denominator
                if p <= 6 and r <= 6:
                    lhs = _pw(y, r)
                    a_p_n, a_p_d = _pw(an, p), (_pw(ad, p) if ad is not None else None)
                    if q > 0:       # y^r = an^p/ad^p
                        self.cons.append(_mulo(lhs, a_p_d) == a_p_n)
                    else:           # y^r * an^p = ad^p
                        self.cons.append(lhs * a_p_n == (a_p_d if a_p_d is not None else z3.RealVal(1)))
        for n, r in zip(exps, reps):
            if r is None:
                continue
            if not (len(r) == 1 and list(r.values())[0] == 1 and basis[list(r)[0]][2] is n):
                # prove arg == sum k_j * base_j
                comb = X.const(0)
                for j, c in r.items():
                    comb = X.add(comb, X.mul(X.const(c), basis[j][0]))
                self.side.append((self.boolean(X.eq(n.args[0], comb)),
                                  'exp-argument linear dependence ' + ', '.join('%s*b%d' % (c, j) for j, c in r.items())))
            num, den = z3.RealVal(1), None
            for j, c in r.items():
                mm = int(c * Ls[j])
                pw = _pw(ys[j], abs(mm))
                if mm >= 0:
                    num = num * pw
                else:
                    den = pw if den is None else den * pw
            self.expmap[n.uid] = (num, den)

    # ------------------------------------------------------------------ reals
    def real(self, e):
        """-> (num, den) with den None meaning 1"""
        r = self.memo.get(e.uid)
        if r is not None:
            return r
        op = e.op
        if op == 'c':
            f = e.args[0]
            r = (_rv(f), None)
        elif op == 'v':
            if e.sort == 'I':
                r = (z3.ToReal(self.zvar(e.args[0], 'I')), None)
            else:
                r = (self.zvar(e.args[0], 'R'), None)
        elif op == 'i2r':
            r = (z3.ToReal(self.integer(e.args[0])), None)
        elif op == '+':
            if e.sort == 'I':
                r = (z3.ToReal(self.integer(e)), None)
            else:
                (a, b), (c, d) = self.real(e.args[0]), self.real(e.args[1])
                if b is None and d is None:
                    r = (a + c, None)
                elif b is not None and d is not None and b.eq(d):
                    r = (a + c, b)
                else:
                    r = (_mulo(a, d) + _mulo(c, b), _mulo2(b, d))
        elif op == '*':
            if e.sort == 'I':
                r = (z3.ToReal(self.integer(e)), None)
            else:
                (a, b), (c, d) = self.real(e.args[0]), self.real(e.args[1])
                r = (a * c, _mulo2(b, d))
        elif op == '/':
            (a, b), (c, d) = self.real(e.args[0]), self.real(e.args[1])
            self.side.append((c != 0, 'divisor != 0: ' + X.show(e.args[1], 3)))
            r = (_mulo(a, d), _mulo2(b, c))
        elif op == 'exp':
            self._finish_groups()
            r = self.expmap.get(e.uid)
            if r is None:
                y = self.fresh('exp')
                self.cons.append(y > 0)
                an, ad = self.real(e.args[0])
                sgn = _mulo(an, ad)
                self.cons += [z3.Implies(sgn > 0, y > 1), z3.Implies(sgn < 0, y < 1), z3.Implies(sgn == 0, y == 1)]
                if e.args[0].op == 'c':
                    lo, hi = _exp_box(e.args[0].args[0])
                    self.cons += [y >= _rv(lo), y <= _rv(hi)]
                r = (y, None)
        elif op == 'log':
            a = e.args[0]
            l = z3.Real('log!%d' % e.uid)
            if a.op == 'c':
                if a.args[0] <= 0:
                    raise ValueError('log of non-positive constant')
                lo, hi = _log_box(a.args[0])
                self.cons += [l >= _rv(lo), l <= _rv(hi)]
            else:
                # semantic sharing: an earlier log atom that is numerically identical at random
                # in-bound points is proved equal (side obligation) and its variable reused
                vec = self._sample(a)
                shared = None
                if vec is not None:
                    for (a2, vec2, l2) in self.logatoms:
                        if all(abs(x - y) <= 1e-10 * max(abs(x), abs(y), 1e-300) for x, y in zip(vec, vec2)):
                            shared = (a2, l2)
                            break
                if shared is not None:
                    self.side.append((self.boolean(X.eq(a, shared[0])), 'log atoms equal: %s == %s' % (X.show(a, 3), X.show(shared[0], 3))))
                    r = (shared[1], None)
                    self.memo[e.uid] = r
                    self.keep.append(e)
                    return r
                if vec is not None:
                    self.logatoms.append((a, vec, l))
                self.logatoms_all.append((a, l))
                an, ad = self.real(a)
                sg = _mulo(an, ad)
                self.side.append((sg > 0, 'log argument > 0: ' + X.show(a, 3)))
                one = _mulo(an - (ad if ad is not None else 1), ad)   # sign of (a - 1)
                self.cons += [z3.Implies(one > 0, l > 0), z3.Implies(one < 0, l < 0), z3.Implies(one == 0, l == 0)]
            r = (l, None)
        elif op == 'ite':
            c = self.boolean(e.args[0])
            if e.sort == 'I':
                r = (z3.ToReal(self.integer(e)), None)
            else:
                (a, b), (c2, d) = self.real(e.args[1]), self.real(e.args[2])
                if b is None and d is None:
                    r = (z3.If(c, a, c2), None)
                else:
                    one = z3.RealVal(1)
                    r = (z3.If(c, a, c2), z3.If(c, b if b is not None else one, d if d is not None else one))
        elif op in ('trunc', 'floor', 'idiv', 'imod'):
            r = (z3.ToReal(self.integer(e)), None)
        elif op == 'uf':
            r = (self._uf(e), None)
        elif op == 'int':
            # opaque integral: a function of its (encoded) limits, keyed by integrand
            f, bx, lo, hi = e.args
            fn = z3.Function('int!%d!%s' % (f.uid, bx), z3.RealSort(), z3.RealSort(), z3.RealSort())
            r = (fn(self._asreal(lo), self._asreal(hi)), None)
        else:
            raise NotImplementedError('real(%s)' % op)
        self.memo[e.uid] = r
        self.keep.append(e)
        return r

    def finalize(self):
        """pairwise congruence / monotonicity facts between the abstraction variables of log atoms
        (sound facts about the real log; recover relations such as log(T_ref) = log(T_mid) under T_ref = T_mid)"""
        atoms = list(self.logatoms_all)
        if len(atoms) > 14:
            atoms = atoms[:14]
        for i in range(len(atoms)):
            for j in range(i + 1, len(atoms)):
                (a1, l1), (a2, l2) = atoms[i], atoms[j]
                lt = self.boolean(X.lt(a1, a2))
                gt = self.boolean(X.lt(a2, a1))
                self.cons += [z3.Implies(lt, l1 < l2), z3.Implies(gt, l1 > l2), z3.Implies(z3.And(z3.Not(lt), z3.Not(gt)), l1 == l2)]

    def _sample(self, a):
        import math, random
        if self._samples is None:
            rnd = random.Random(99)
            self._samples = []
            names = {}
            for k in range(3):
                self._samples.append({})
            self._rnd = rnd
        fv = X.free_vars(a)
        out = []
        for env in self._samples:
            for name, v in fv.items():
                if name not in env:
                    lo, hi = None, None
                    if self.inputs and name in self.inputs:
                        _, lo, hi = self.inputs[name]
                    lo = float(lo) if lo is not None else (0.5 if hi is None else float(hi) - 2.0)
                    hi = float(hi) if hi is not None else lo + 2.0
                    if v.sort == 'I':
                        env[name] = self._rnd.randint(int(math.ceil(lo)), int(math.floor(hi)))
                    elif v.sort == 'B':
                        env[name] = self._rnd.random() < 0.5
                    elif lo > 0 and hi / lo > 100:
                        env[name] = math.exp(self._rnd.uniform(math.log(lo), math.log(hi)))
                    else:
                        env[name] = self._rnd.uniform(lo, hi)
            try:
                out.append(float(X.ev(a, env, 'float')))
            except Exception:
                return None
        return out

    def _asreal(self, e):
        """single z3 Real equal to e (introduces a quotient variable when needed)"""
        n, d = self.real(e)
        if d is None:
            return n
        q = self.qmemo.get(e.uid)
        if q is None:
            q = self.fresh('q')
            self.cons.append(q * d == n)
            self.qmemo[e.uid] = q
        return q

    def _uf(self, e):
        name = e.args[0]
        args = e.args[1:]
        zs = []
        for a in args:
            if a.sort == 'B':
                zs.append(self.boolean(a))
            elif a.sort == 'I':
                zs.append(self.integer(a))
            else:
                zs.append(self._asreal(a))
        rs = {'R': z3.RealSort(), 'I': z3.IntSort(), 'B': z3.BoolSort()}[e.sort]
        if not zs:
            return self.zvar('uf!' + name, e.sort)
        fn = z3.Function('uf!' + name, *([z.sort() for z in zs] + [rs]))
        return fn(*zs)

    # ------------------------------------------------------------------ ints
    def integer(self, e):
        key = ('i', e.uid)
        r = self.memo.get(key)
        if r is not None:
            return r
        op = e.op
        if e.sort != 'I':
            raise TypeError('integer() of sort %s' % e.sort)
        if op == 'c':
            r = z3.IntVal(int(e.args[0]))
        elif op == 'v':
            r = self.zvar(e.args[0], 'I')
        elif op == '+':
            r = self.integer(e.args[0]) + self.integer(e.args[1])
        elif op == '*':
            r = self.integer(e.args[0]) * self.integer(e.args[1])
        elif op == 'ite':
            r = z3.If(self.boolean(e.args[0]), self.integer(e.args[1]), self.integer(e.args[2]))
        elif op == 'trunc':
            x = self._asreal(e.args[0])
            r = z3.If(x >= 0, z3.ToInt(x), -z3.ToInt(-x))
        elif op == 'floor':
            r = z3.ToInt(self._asreal(e.args[0]))
        elif op == 'idiv':
            a, b = self.integer(e.args[0]), self.integer(e.args[1])
            self.side.append((b != 0, 'integer divisor != 0'))
            # python floor division; z3 div is euclidean: equal for b>0
            r = z3.If(b > 0, a / b, z3.ToInt(z3.ToReal(a) / z3.ToReal(b)))
        elif op == 'imod':
            a, b = self.integer(e.args[0]), self.integer(e.args[1])
            self.side.append((b != 0, 'integer divisor != 0'))
            r = z3.If(b > 0, a % b, a - b * z3.ToInt(z3.ToReal(a) / z3.ToReal(b)))
        elif op == 'uf':
            r = self._uf(e)
        else:
            raise NotImplementedError('integer(%s)' % op)
        self.memo[key] = r
        self.keep.append(e)
        return r

    # ------------------------------------------------------------------ bools
    def boolean(self, e):
        key = ('b', e.uid)
        r = self.memo.get(key)
        if r is not None:
            return r
        op = e.op
        if op == 'cb':
            r = z3.BoolVal(e.args[0])
        elif op == 'v':
            r = self.zvar(e.args[0], 'B')
        elif op in ('lt', 'le', 'eq'):
            a, b = e.args
            if a.sort == 'I' and b.sort == 'I':
                x, y = self.integer(a), self.integer(b)
                r = x < y if op == 'lt' else (x <= y if op == 'le' else x == y)
            else:
                (an, ad), (bn, bd) = self.real(a), self.real(b)
                if ad is None and bd is None:
                    r = an < bn if op == 'lt' else (an <= bn if op == 'le' else an == bn)
                elif op == 'eq':
                    r = _mulo(an, bd) == _mulo(bn, ad)
                elif self.quotient_vars:
                    # order comparisons between quotients: name each quotient (q*d == n, d != 0 is a
                    # separate definedness obligation) so the order constraints stay linear in the q's
                    x, y = self._asreal(a), self._asreal(b)
                    r = x < y if op == 'lt' else x <= y
                else:
                    diff = _mulo(an, bd) - _mulo(bn, ad)      # numerator of a-b over ad*bd
                    den = _mulo2(ad, bd)
                    # a-b = diff/den : sign(diff*den)
                    t = diff * den
                    r = t < 0 if op == 'lt' else t <= 0
        elif op == 'not':
            r = z3.Not(self.boolean(e.args[0]))
        elif op == 'and':
            r = z3.And(*[self.boolean(a) for a in e.args])
        elif op == 'or':
            r = z3.Or(*[self.boolean(a) for a in e.args])
        elif op == 'ite':
            r = z3.If(self.boolean(e.args[0]), self.boolean(e.args[1]), self.boolean(e.args[2]))
        elif op == 'uf':
            r = self._uf(e)
        else:
            raise NotImplementedError('boolean(%s)' % op)
        self.memo[key] = r
        self.keep.append(e)
        return r


def _solve(cols, v):
    """exact rational solve  sum_j k_j cols[j] = v ; None when inconsistent"""
    n = len(cols)
    m = len(v)
    M = [[cols[j][i] for j in range(n)] + [v[i]] for i in range(m)]
    piv = []
    r = 0
    for c in range(n):
        pr = None
        for i in range(r, m):
            if M[i][c] != 0:
                pr = i
                break
        if pr is None:
            return None         # dependent basis (should not happen)
        M[r], M[pr] = M[pr], M[r]
        pv = M[r][c]
        M[r] = [x / pv for x in M[r]]
        for i in range(m):
            if i != r and M[i][c] != 0:
                f = M[i][c]
                M[i] = [a - f * b for a, b in zip(M[i], M[r])]
        piv.append(c)
        r += 1
    for i in range(r, m):
        if M[i][n] != 0:
            return None
    return [M[i][n] for i in range(n)]


def _mulo(a, b):
    """a*b where b may be None (=1)"""
    return a if b is None else a * b


def _mulo2(a, b):
    if a is None:
        return b
    if b is None:
        return a
    return a * b


def _pw(x, n):
    if x is None:
        return None
    r = z3.RealVal(1)
    for _ in range(n):
        r = r * x
    return r


def _single_log(e):
    """e == q*log(atom) -> (q, atom)"""
    if e.op == 'log':
        return Fraction(1), e.args[0]
    if e.op == '*' and e.args[0].op == 'c' and e.args[1].op == 'log':
        return e.args[0].args[0], e.args[1].args[0]
    return None


def _box(val_mpf, mp):
    eps = mp.mpf(10) ** (-25)
    lo = val_mpf - abs(val_mpf) * eps - mp.mpf(10) ** (-40)
    hi = val_mpf + abs(val_mpf) * eps + mp.mpf(10) ** (-40)

    def fr(x):
        # exact conversion of an mpf to Fraction
        man, exp = x.man, x.exp
        s = -1 if x._mpf_[0] else 1
        return Fraction(s * int(man)) * (Fraction(2) ** int(exp))
    return fr(lo), fr(hi)


def _log_box(fr):
    import mpmath as mp
    mp.mp.dps = 50
    return _box(mp.log(mp.mpf(fr.numerator) / mp.mpf(fr.denominator)), mp)


def _exp_box(fr):
    import mpmath as mp
    mp.mp.dps = 50
    fr = Fraction(fr)
    return _box(mp.exp(mp.mpf(fr.numerator) / mp.mpf(fr.denominator)), mp)
