"""Import hook: loads pmutt.* from /repo's *current* source through an AST transform.

The transform only rewrites operations a proxy cannot intercept by itself:
    "lit" % x, "lit".format(...), f-strings     ->  __vp_fmt__(kind, lit, ...)
and the module namespace gets shadows for a few builtins plus `np` -> npshim after the
module body ran.  Function bodies are otherwise exactly the repository's.
"""
import ast
import importlib.abc
import importlib.machinery
import os
import sys

REPO = os.environ.get('PMUTT_REPO', '/repo')
sys.dont_write_bytecode = True

_installed = [False]
fmt_hook = [None]        # installed by symstr when string properties run
extra_globals = {}       # name -> object injected in every instrumented module
module_patches = {}      # global name -> (real module name, replacement) applied after the module body ran
loaded_files = []


def __vp_fmt__(kind, lit, *args, **kw):
    # receivers that are not literals: dispatch on the run-time type
    if kind == '%any':
        if not isinstance(lit, str):
            return lit % args[0]
        kind = '%'
    elif kind == 'format_any':
        if not isinstance(lit, str):
            return lit.format(*args, **kw)
        kind = 'format'
    elif kind == 'join_any':
        if not isinstance(lit, str):
            return lit.join(args[0])
        kind = 'join'
    h = fmt_hook[0]
    if h is not None:
        r = h(kind, lit, args, kw)
        if r is not NotImplemented:
            return r
    if kind == '%':
        return lit % args[0]
    if kind == 'format':
        return lit.format(*args, **kw)
    if kind == 'join':
        return lit.join(args[0])
    if kind == 'fstr':
        # args: sequence of str pieces or (value, conversion, spec) tuples
        out = []
        for a in args:
            if isinstance(a, tuple):
                v, conv, spec = a
                if conv == 'r':
                    v = repr(v)
                elif conv == 's':
                    v = str(v)
                elif conv == 'a':
                    v = ascii(v)
                out.append(format(v, spec))
            else:
                out.append(a)
        return ''.join(out)
    raise ValueError(kind)


class _T(ast.NodeTransformer):
    def visit_BinOp(self, node):
        self.generic_visit(node)
        if isinstance(node.op, ast.Mod):
            if isinstance(node.left, ast.Constant) and not isinstance(node.left.value, str):
                return node
            kind = '%' if (isinstance(node.left, ast.Constant) and isinstance(node.left.value, str)) else '%any'
            return ast.copy_location(ast.Call(
                func=ast.Name('__vp_fmt__', ast.Load()),
                args=[ast.Constant(kind), node.left, node.right], keywords=[]), node)
        return node

    def visit_Call(self, node):
        self.generic_visit(node)
        f = node.func
        if isinstance(f, ast.Attribute) and f.attr == 'join' and len(node.args) == 1 and not node.keywords \
                and not isinstance(node.args[0], ast.Starred):
            kind = 'join' if (isinstance(f.value, ast.Constant) and isinstance(f.value.value, str)) else 'join_any'
            return ast.copy_location(ast.Call(
                func=ast.Name('__vp_fmt__', ast.Load()),
                args=[ast.Constant(kind), f.value, node.args[0]], keywords=[]), node)
        if isinstance(f, ast.Attribute) and f.attr == 'format':
            kind = 'format' if (isinstance(f.value, ast.Constant) and isinstance(f.value.value, str)) else 'format_any'
            return ast.copy_location(ast.Call(
                func=ast.Name('__vp_fmt__', ast.Load()),
                args=[ast.Constant(kind), f.value] + node.args, keywords=node.keywords), node)
        return node

    def visit_JoinedStr(self, node):
        self.generic_visit(node)
        parts = []
        for v in node.values:
            if isinstance(v, ast.Constant):
                parts.append(v)
            else:   # FormattedValue
                conv = {-1: None, 115: 's', 114: 'r', 97: 'a'}[v.conversion]
                spec = v.format_spec if v.format_spec is not None else ast.Constant('')
                if isinstance(spec, ast.JoinedStr):
                    spec = self.visit_JoinedStr(spec) if any(
                        not isinstance(x, ast.Constant) for x in spec.values) else ast.Constant(
                        ''.join(x.value for x in spec.values))
                parts.append(ast.Tuple([v.value, ast.Constant(conv), spec], ast.Load()))
        return ast.copy_location(ast.Call(
            func=ast.Name('__vp_fmt__', ast.Load()),
            args=[ast.Constant('fstr'), ast.Constant('')] + parts, keywords=[]), node)


module_state = []
_state_ids = set()


def reset_module_state():
    """put every module-level dict / list / set of the pmutt modules back to its content right after import (in place)"""
    for obj, snap in module_state:
        if type(obj) is list:
            obj[:] = snap
        else:
            obj.clear()
            obj.update(snap)


class _Loader(importlib.machinery.SourceFileLoader):
    def source_to_code(self, data, path, *, _optimize=-1):
        tree = ast.parse(data, filename=path)
        tree = _T().visit(tree)
        ast.fix_missing_locations(tree)
        loaded_files.append(path)
        return compile(tree, path, 'exec', dont_inherit=True, optimize=_optimize)

    def get_code(self, fullname):
        # never use cached bytecode: always re-read the working tree
        path = self.get_filename(fullname)
        data = self.get_data(path)
        return self.source_to_code(data, path)

    def exec_module(self, module):
        from . import proxy
        from .npshim import np as npshim
        g = module.__dict__
        g['__vp_fmt__'] = __vp_fmt__
        g['float'] = proxy.SymFloatType
        g['int'] = proxy.SymIntType
        g['round'] = proxy.sym_round
        g['isinstance'] = proxy.sym_isinstance
        g.update(extra_globals)
        super().exec_module(module)
        if 'np' in g and getattr(g['np'], '__name__', '') == 'numpy':
            g['np'] = npshim
        for k, v in extra_globals.items():
            g[k] = v
        for k, (modname, repl) in module_patches.items():
            if getattr(g.get(k), '__name__', None) == modname:
                g[k] = repl
        if 're' in module_patches:
            # regular expressions compiled at import time (module-level constants) ran through the real `re`: wrap them
            import re as _re
            from . import symre
            for k, v in list(g.items()):
                if isinstance(v, _re.Pattern):
                    g[k] = symre._Compiled(v.pattern, v.flags & ~_re.UNICODE)
        # module-level mutable containers (memo tables, registries): remembered as they are right after import, so that what one
        # explored path stores in them cannot be met by the next path or by the concrete replay (reset_module_state)
        for k, v in list(g.items()):
            if type(v) in (dict, list, set) and not k.startswith('__') and id(v) not in _state_ids:
                _state_ids.add(id(v))
                module_state.append((v, type(v)(v)))


class _Finder(importlib.abc.MetaPathFinder):
    def find_spec(self, name, path=None, target=None):
        if name != 'pmutt' and not name.startswith('pmutt.'):
            return None
        if name.startswith('pmutt.tests'):
            return None
        if name == 'pmutt':
            search = [REPO]
        else:
            search = path
        spec = importlib.machinery.PathFinder.find_spec(name, search)
        if spec is None:
            return None
        if isinstance(spec.loader, importlib.machinery.SourceFileLoader):
            if not os.path.abspath(spec.origin).startswith(os.path.abspath(REPO) + os.sep):
                raise ImportError('pmutt resolved outside %s: %s' % (REPO, spec.origin))
            spec.loader = _Loader(spec.loader.name, spec.loader.path)
        return spec


def install():
    if _installed[0]:
        return
    for m in list(sys.modules):
        if m == 'pmutt' or m.startswith('pmutt.'):
            raise RuntimeError('pmutt imported before the instrumenting loader was installed')
    sys.meta_path.insert(0, _Finder())
    _installed[0] = True
