import sys; import os; sys.path.insert(0, os.path.dirname(os.path.abspath(__file__)))
from symx3 import *
from pmutt.statmech import trans, rot
T=Sym(var('T')); P=Sym(var('P')); M=Sym(var('M'))
dom=lambda V:[V['T']>=50,V['T']<=5000]+([V['P']>=Fraction(1,10000),V['P']<=1000] if 'P' in V else [])+([V['M']>=1,V['M']<=500] if 'M' in V else [])+[z3.And(V[k]>=Fraction(1,100),V[k]<=100) for k in V if k.startswith('r')]+([V['sig']>=1,V['sig']<=24] if 'sig' in V else [])
for n in (1,2,3):
    ft=trans.FreeTrans(n_degrees=n, molecular_weight=M)
    S=ft.get_SoR(T=T,P=P); Cp=ft.get_CpoR(); H=ft.get_HoRT(); U=ft.get_UoRT()
    print(n,'dS/dT', prove2(d(S.e,'T'), (Cp/T).e, dom)[:3])
    print(n,'dS/dP', prove2(d(S.e,'P'), (-1/P).e, dom)[:3])
    print(n,'H-U', prove2((H-U) if isinstance(H-U,Sym) and False else lift(H-U), const(1.), dom)[:3] if False else (H-U))
    q=ft.get_q(T=T,P=P)
    print(n,'T dlnq/dT = H', prove2(mul(var('T'),d(log(q.e),'T')), lift(H), dom)[:3])
rr=rot.RigidRotor(symmetrynumber=Sym(var('sig')), rot_temperatures=[Sym(var('r0')),Sym(var('r1')),Sym(var('r2'))], geometry='nonlinear')
S=rr.get_SoR(T=T); q=rr.get_q(T=T)
print('rot dS/dT', prove2(d(S.e,'T'), (rr.get_CpoR()/T).e, dom)[:3])
print('rot T dlnq/dT=U', prove2(mul(var('T'),d(log(q.e),'T')), lift(rr.get_UoRT()), dom)[:3])
