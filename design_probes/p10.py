import sys; import os; sys.path.insert(0, os.path.dirname(os.path.abspath(__file__)))
from symx3 import *
from pmutt import eos
import pmutt.eos as E
T=Sym(var('T')); P=Sym(var('P')); n=Sym(var('n')); a=Sym(var('a')); b=Sym(var('b')); r=Sym(var('r'))
captured=[]
class NP:
    def __getattr__(s,k): return getattr(np,k)
    def roots(s,c): captured.append(c); return [r]
    def real(s,x): return x
    def isreal(s,x): return True
    def max(s,x): return x[0]
    def min(s,x): return x[0]
E.np=NP()
v=E.vanDerWaalsEOS(a=a,b=b)
V=v.get_V(T=T,P=P,n=n)
Pback=v.get_P(T=T,V=V,n=n)
c3,c2,c1,c0=[lift(x) for x in captured[0]]
poly=add(add(add(mul(c3,powi(r.e,3)),mul(c2,powi(r.e,2))),mul(c1,r.e)),c0)
def dom(Vv):
    zz=[Vv['T']>=50,Vv['T']<=3000,Vv['P']>=Fraction(1,1000),Vv['P']<=1000,Vv['n']>=Fraction(1,1000),Vv['n']<=1000,
        Vv['a']>=Fraction(3,1000),Vv['a']<=3,Vv['b']>=Fraction(1,100000),Vv['b']<=Fraction(2,10000), Vv['r']>Vv['b']]
    return zz
# assumption poly==0: encode by adding to assume via RF of poly
def prove_with(lhs,rhs,extra0):
    R=RF([lhs,rhs,extra0]); R.build()
    (A,B),(C,D)=R.rf(lhs),R.rf(rhs); (pn,pd)=R.rf(extra0)
    s=z3.Solver(); s.set('timeout',60000); s.add(*dom(R.vars)); s.add(pn==0)
    t=time.time()
    s.push(); s.add(z3.Or(B==0,D==0)); r1=s.check(); s.pop()
    s.push(); s.add(A*D!=C*B); r2=s.check(); s.pop()
    s.push(); r3=s.check(); s.pop()
    return str(r1),str(r2),'twin:'+str(r3),round(time.time()-t,3)
print(prove_with(Pback.e, P.e, poly))
Tc=Sym(var('Tc')); Pc=Sym(var('Pc'))
w=E.vanDerWaalsEOS.from_critical(Tc=Tc,Pc=Pc)
domc=lambda Vv:[Vv['Tc']>=5,Vv['Tc']<=1000,Vv['Pc']>=1,Vv['Pc']<=300]
print(prove2(lift(w.get_Tc()), Tc.e, domc)[:3], prove2(lift(w.get_Pc()), Pc.e, domc)[:3])
