import sys; import os; sys.path.insert(0, os.path.dirname(os.path.abspath(__file__)))
from symx import *
from pmutt.empirical import nasa
import z3
a=np.array([Sym(var('a%d'%i)) for i in range(7)])
T=Sym(var('T'))
Cp=nasa.get_nasa_CpoR(a,T); H=nasa.get_nasa_HoRT(a,T); S=nasa.get_nasa_SoR(a,T)
pos=lambda V:[V['T']>=50, V['T']<=6000]
print('dH', prove(d((H*T).e,'T'), Cp.e, pos)[:3])
print('dS', prove(d(S.e,'T'), (Cp/T).e, pos)[:3])
# vib
from pmutt.statmech import vib
class HV(vib.HarmonicVib): pass
hv=vib.HarmonicVib.__new__(vib.HarmonicVib)
th=[Sym(var('th%d'%i)) for i in range(2)]
hv._valid_vib_temperatures=np.array(th)
U=hv.get_UoRT(T=T); Cv=hv.get_CvoR(T=T); S=hv.get_SoR(T=T)
pos2=lambda V:[V['T']>=50, V['T']<=5000]+[z3.And(V[k]>=10, V[k]<=7000) for k in V if k.startswith('th')]
print('vib dU', prove(d((U*T).e,'T'), Cv.e, pos2)[:3])
print('vib dS', prove(d(S.e,'T'), (Cv/T).e, pos2)[:3])
