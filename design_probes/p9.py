import sys; import os; sys.path.insert(0, os.path.dirname(os.path.abspath(__file__)))
import numpy as np, z3, time
from symx import *
class Ctx:
    def reset(s, prefix): s.prefix=list(prefix); s.pos=0; s.pc=[]; s.forkable=[None]*len(prefix)
CTX=Ctx(); NQ=[0]; BASE=[]
class SBool:
    def __init__(s, z): s.z=z
    def __bool__(s):
        c=CTX
        if c.pos < len(c.prefix): v=c.prefix[c.pos]
        else:
            sol=z3.Solver(); sol.add(*BASE); sol.add(*c.pc); 
            sol.push(); sol.add(s.z); NQ[0]+=1; t=sol.check()==z3.sat; sol.pop()
            sol.push(); sol.add(z3.Not(s.z)); NQ[0]+=1; f=sol.check()==z3.sat; sol.pop()
            v = t; c.prefix.append(v); c.forkable.append(t and f)
        c.pos+=1; c.pc.append(s.z if v else z3.Not(s.z)); return v
    def __gt__(s,o): 
        oz = o.z if isinstance(o,SBool) else z3.BoolVal(bool(o))
        return SBool(z3.And(s.z, z3.Not(oz)))
    def __lt__(s,o):
        oz = o.z if isinstance(o,SBool) else z3.BoolVal(bool(o))
        return SBool(z3.And(z3.Not(s.z), oz))
ZZ=Z()
def cmp(op):
    def f(s,o):
        if isinstance(o,np.ndarray): return NotImplemented
        a=ZZ.tr(s.e); b=ZZ.tr(lift(o))
        return SBool({'<':a<b,'<=':a<=b,'>':a>b,'>=':a>=b,'==':a==b,'!=':a!=b}[op])
    return f
for n,op in (('__lt__','<'),('__le__','<='),('__gt__','>'),('__ge__','>='),('__eq__','=='),('__ne__','!=')):
    setattr(Sym,n,cmp(op))
Sym.__hash__=lambda s:id(s)
_old=Sym.__array_ufunc__
def auf(s, ufunc, method, *inputs, **kw):
    n=ufunc.__name__
    if n in ('less','greater','less_equal','greater_equal','equal','not_equal') and not any(isinstance(i,np.ndarray) and i.ndim>0 for i in inputs):
        a,b=[i if isinstance(i,Sym) else Sym(lift(i)) for i in inputs]
        return {'less':a<b,'greater':a>b,'less_equal':a<=b,'greater_equal':a>=b,'equal':a==b,'not_equal':a!=b}[n]
    return _old(s,ufunc,method,*inputs,**kw)
Sym.__array_ufunc__=auf
def explore(fn, maxpaths=500):
    results=[]; stack=[[]]
    while stack and len(results)<maxpaths:
        prefix=stack.pop(); CTX.reset(prefix)
        try: r=fn()
        except Exception as ex: r=('EXC',type(ex).__name__,str(ex)[:80])
        results.append((list(CTX.pc), r))
        for i in range(len(prefix), len(CTX.prefix)):
            if CTX.forkable[i]: stack.append(CTX.prefix[:i]+[not CTX.prefix[i]])
    return results
from pmutt.mixture.cov import PiecewiseCovEffect
k=3
iv=[0.]+[Sym(var('i%d'%j)) for j in range(1,k)]
sl=[Sym(var('s%d'%j)) for j in range(k)]
ni=Sym(var('ni')); ns=Sym(var('ns'))
V=lambda n: ZZ.tr(var(n))
BASE[:]=[V('i1')>0, V('i2')>V('i1'), V('i2')<=1, V('ni')>=0, V('ni')<=1]
def run():
    p=PiecewiseCovEffect('a','b',list(iv),list(sl))
    p.insert(ni,ns)
    return p.intervals, p.slopes, p._intercepts
t=time.time(); res=explore(run)
print(len(res),'paths', NQ[0],'queries', round(time.time()-t,2),'s')
for pc,r in res:
    ivs=r[0]
    # sortedness obligation
    s=z3.Solver(); s.add(*BASE); s.add(*pc)
    zs=[ZZ.tr(lift(x)) for x in ivs]
    s.add(z3.Or(*[zs[j]>zs[j+1] for j in range(len(zs)-1)]))
    print([str(c) for c in pc], '->', [str(z) for z in zs], 'unsorted?', s.check(), s.model() if s.check()==z3.sat else '')
