import sys; import os; sys.path.insert(0, os.path.dirname(os.path.abspath(__file__)))
from symx2 import *
# extend RF with log as variables (no expansion yet) 
_old_init=RF.__init__
def _init(s, exprs):
    s.logvars={}
    _old_init(s, exprs)
def evalq2(e, env, logenv):
    op=e.op
    if op=='log':
        k=id(e)
        if k not in logenv: logenv[k]=Fraction(random.randint(3,97),random.randint(2,13))
        return logenv[k]
    if op=='c': return e.args[0]
    if op=='v': return env[e.args[0]]
    if op=='+': return evalq2(e.args[0],env,logenv)+evalq2(e.args[1],env,logenv)
    if op=='*': return evalq2(e.args[0],env,logenv)*evalq2(e.args[1],env,logenv)
    if op=='/': return evalq2(e.args[0],env,logenv)/evalq2(e.args[1],env,logenv)
    raise ValueError(op)
import symx2
_le={}
symx2.evalq=lambda e,env: evalq2(e,env,_le)
_old_rf=RF.rf
def _rf(s,e):
    if e.op=='log':
        k=id(e)
        if k in s.memo: return s.memo[k]
        an,ad=s.rf(e.args[0])
        # structural key: use sexpr of arg to share vars
        key=(an*ad).sexpr() if False else str(z3.simplify(an/ad)) if False else None
        skey=z3.simplify(an*z3.RealVal(1)/ad).sexpr()
        if skey in s.logvars: v=s.logvars[skey]
        else:
            v=z3.Real('L%d'%len(s.logvars)); s.logvars[skey]=v
            s.side.append(an*ad>0)
        r=(v,z3.RealVal(1)); s.memo[k]=r; return r
    return _old_rf(s,e)
RF.__init__=_init; RF.rf=_rf
