import warnings; warnings.simplefilter('ignore')
import numpy as np, json
from pmutt.mixture.cov import PiecewiseCovEffect
p=PiecewiseCovEffect('a','b',[0.,0.3],[1.,2.]); p.insert(0.6,5.); print('cov insert above:',p.intervals,p.slopes)
from pmutt.reaction import _write_reaction_state, Reaction, ChemkinReaction
class S: 
    def __init__(s,n): s.name=n
print('write state:', _write_reaction_state([S('H2')],[1.9999999999]))
from pmutt import constants as c
print('J->L atm', c.convert_unit(101.325,'J','L atm'), 'expected 1')
from pmutt.io.omkm import write_yaml
try: write_yaml(T=300.)
except Exception as e: print('write_yaml no phases:', type(e).__name__, e)
from pmutt.empirical.nasa import Nasa, Nasa9, SingleNasa9
from pmutt.io.thermdat import write_thermdat, read_thermdat
import tempfile, os
mk=lambda name: Nasa(name=name, T_low=200., T_mid=1000., T_high=3000., a_low=[1,2,3,4,5,6,7], a_high=[7,6,5,4,3,2,1], elements={'H':2,'O':1}, phase='G')
f=tempfile.mktemp(); write_thermdat([mk('H2O'),mk('BENDER'),mk('CO2')],filename=f,write_date=False)
try:
    r=read_thermdat(f); print('thermdat END name:', [x.name for x in r])
except Exception as e: print('thermdat END name:', type(e).__name__, e)
n=Nasa(name='Pt100', T_low=200., T_mid=1000., T_high=3000., a_low=[1,2,3,4,5,6,7], a_high=[7,6,5,4,3,2,1], elements={'Pt':100}, phase='S')
write_thermdat([n],filename=f,write_date=False)
try: r=read_thermdat(f); print('Pt100:', r[0].elements)
except Exception as e: print('Pt100:', type(e).__name__, e)
os.remove(f)
from pmutt.io.json import pmuttEncoder, json_to_pmutt
for obj in [mk('H2O')]:
    s=json.dumps(obj, cls=pmuttEncoder); o2=json.loads(s, object_hook=json_to_pmutt); print('json nasa', type(o2).__name__, len(o2.misc_models))
n9=Nasa9(name='x', nasas=[SingleNasa9(T_low=200.,T_high=1000.,a=np.arange(9.))], elements={'H':1}, phase='G')
try:
    s=json.dumps(n9, cls=pmuttEncoder); o2=json.loads(s, object_hook=json_to_pmutt); print('json nasa9', type(o2).__name__)
except Exception as e: print('json nasa9:', type(e).__name__, e)
from pmutt.reaction.phasediagram import PhaseDiagram
class Rx:
    def __init__(s,g): s.g=g
    def get_delta_GoRT(s,T,**kw): return s.g*T
    def to_dict(s): return {}
pd=PhaseDiagram([Rx(1.),Rx(-1.),Rx(0.5)])
G,st=pd.get_GoRT_1D('T',[1.,2.,3.,4.]); print('phase1D stable shape', st.shape, st)
