import sys, os; sys.path.insert(0, os.path.dirname(os.path.abspath(__file__)))
from symx3 import *
from pmutt.empirical import nasa as N
import builtins
def sh_float(x):
    if isinstance(x,np.ndarray) and x.dtype==object: x=x.item()
    return x if isinstance(x,Sym) else builtins.float(x)
N.float=sh_float
def mk(tag): return [Sym(var('%s%d'%(tag,i))) for i in range(7)]+[0.,0.]
Tm=Sym(var('Tm')); Tref=Sym(var('Tref')); Href=Sym(var('Href')); Sref=Sym(var('Sref'))
g=lambda V,n: V.setdefault(n,z3.Real(n))
dom=lambda V:[g(V,'Tm')>=300,g(V,'Tm')<=2000,g(V,'Tref')>=100,g(V,'Tref')<=3000]
for case,extra in (('Tref<=Tm', lambda V:[g(V,'Tref')<=g(V,'Tm')]), ('Tref>Tm', lambda V:[g(V,'Tref')>g(V,'Tm')])):
    a=[np.array(mk('a'),dtype=object), np.array(mk('b'),dtype=object)]
    a=N._fit_HoRT9(T_ref=Tref, HoRT_ref=Href, a=a, T_mid=[Tm])
    a=N._fit_SoR9(T_ref=Tref, SoR_ref=Sref, a=a, T_mid=[Tm])
    dd=lambda V:dom(V)+extra(V)
    # continuity at Tm
    print(case,'H cont', prove2(lift(N.get_nasa9_HoRT(a[0],Tm)), lift(N.get_nasa9_HoRT(a[1],Tm)), dd)[:3])
    print(case,'S cont', prove2(lift(N.get_nasa9_SoR(a[0],Tm)), lift(N.get_nasa9_SoR(a[1],Tm)), dd)[:3])
    seg = a[0] if case=='Tref<=Tm' else a[1]
    r=prove2(lift(N.get_nasa9_HoRT(seg,Tref)), Href.e, dd); print(case,'H anchor', r[:3])
    r=prove2(lift(N.get_nasa9_SoR(seg,Tref)), Sref.e, dd); print(case,'S anchor', r[:3])
# derivative relations nasa9
a9=np.array(mk('a')[:7]+[Sym(var('a7')),Sym(var('a8'))],dtype=object); T=Sym(var('T'))
domT=lambda V:[V['T']>=50,V['T']<=6000]
Cp=N.get_nasa9_CpoR(a9,T); H=N.get_nasa9_HoRT(a9,T); S=N.get_nasa9_SoR(a9,T)
print('nasa9 dH', prove2(d((H*T).e,'T'), lift(Cp), domT)[:3]); print('nasa9 dS', prove2(d(lift(S),'T'), (Cp/T).e, domT)[:3])
