"""probe: SymStr with literal / symbolic-char / token cells; forking via p9-style scheduler"""
import sys, z3, builtins
import os; sys.path.insert(0, os.path.dirname(os.path.abspath(__file__)))
class Ctx:
    def reset(s, prefix): s.prefix=list(prefix); s.pos=0; s.pc=[]; s.forkable=[None]*len(prefix)
CTX=Ctx(); CTX.reset([]); NQ=[0]; BASE=[]
class SBool:
    def __init__(s, z): s.z=z
    def __bool__(s):
        c=CTX
        zz=z3.simplify(s.z)
        if z3.is_true(zz): return True
        if z3.is_false(zz): return False
        if c.pos < len(c.prefix): v=c.prefix[c.pos]
        else:
            sol=z3.Solver(); sol.add(*BASE); sol.add(*c.pc)
            sol.push(); sol.add(s.z); NQ[0]+=1; t=sol.check()==z3.sat; sol.pop()
            sol.push(); sol.add(z3.Not(s.z)); NQ[0]+=1; f=sol.check()==z3.sat; sol.pop()
            v=t; c.prefix.append(v); c.forkable.append(t and f)
        c.pos+=1; c.pc.append(s.z if v else z3.Not(s.z)); return v
    def __invert__(s): return SBool(z3.Not(s.z))
def explore(fn, maxpaths=2000):
    results=[]; stack=[[]]
    while stack and len(results)<maxpaths:
        prefix=stack.pop(); CTX.reset(prefix)
        try: r=fn()
        except Exception as ex:
            import traceback; r=('EXC',type(ex).__name__,str(ex)[:100], traceback.format_exc().splitlines()[-3:])
        results.append((list(CTX.pc), r))
        for i in range(len(prefix), len(CTX.prefix)):
            if CTX.forkable[i]: stack.append(CTX.prefix[:i]+[not CTX.prefix[i]])
    return results
class SC:  # symbolic char
    def __init__(s,z): s.z=z
    def __repr__(s): return '<%s>'%s.z
class TK:  # k-th char of token
    def __init__(s,tid,k): s.tid=tid; s.k=k
    def __repr__(s): return '«%d.%d»'%(s.tid,s.k)
TOKENS={}
def newtok(kind, spec, value, width):
    tid=len(TOKENS); TOKENS[tid]=dict(kind=kind,spec=spec,value=value,width=width)
    return SymStr([TK(tid,k) for k in range(width)])
def ceq(a,b):
    """cell equality -> python bool or z3 bool"""
    if isinstance(a,str) and isinstance(b,str): return a==b
    if isinstance(a,TK) or isinstance(b,TK):
        if isinstance(a,TK) and isinstance(b,TK): return a.tid==b.tid and a.k==b.k
        lit = b if isinstance(a,TK) else a
        if isinstance(lit,str): return False if (lit.isspace() or lit.isalpha() or lit in '!') else (_ for _ in ()).throw(NotImplementedError('tok vs %r'%lit))
        raise NotImplementedError('tok vs symchar')
    za = a.z if isinstance(a,SC) else z3.IntVal(ord(a))
    zb = b.z if isinstance(b,SC) else z3.IntVal(ord(b))
    return za==zb
def tobool(x): return x if isinstance(x,bool) else bool(SBool(x))
class SymStr:
    def __init__(s,cells): s.c=list(cells)
    @staticmethod
    def of(x):
        if isinstance(x,SymStr): return x
        if isinstance(x,str): return SymStr(list(x))
        raise TypeError(type(x))
    def __len__(s): return len(s.c)
    def __add__(s,o): return SymStr(s.c+SymStr.of(o).c)
    def __radd__(s,o): return SymStr(SymStr.of(o).c+s.c)
    def __getitem__(s,i):
        if isinstance(i,slice): return SymStr(s.c[i])
        return SymStr([s.c[i]])
    def __iter__(s): return (SymStr([x]) for x in s.c)
    def __repr__(s): return 'S"'+''.join(x if isinstance(x,str) else repr(x) for x in s.c)+'"'
    def _match_at(s,i,sub):
        conds=[]
        for j,ch in enumerate(sub.c):
            r=ceq(s.c[i+j],ch)
            if r is False: return False
            if r is not True: conds.append(r)
        return True if not conds else z3.And(*conds)
    def find(s,sub,start=0,end=None):
        sub=SymStr.of(sub); n=len(s.c) if end is None else end
        for i in range(start, n-len(sub.c)+1):
            if tobool(s._match_at(i,sub)): return i
        return -1
    def __contains__(s,sub): return s.find(sub)!=-1
    def __eq__(s,o):
        if not isinstance(o,(str,SymStr)): return False
        o=SymStr.of(o)
        if len(o.c)!=len(s.c): return False
        return tobool(s._match_at(0,o))
    def __ne__(s,o): return not s.__eq__(o)
    def __hash__(s): return hash(("SymStr",len(s.c)))
    def _isblank(s,cell): return tobool(z3.Or(*[x for x in [ceq(cell,ch) for ch in ' \n\t'] if x is not False and x is not True]) if not any(ceq(cell,ch) is True for ch in ' \n\t') and any(not isinstance(ceq(cell,ch),bool) for ch in ' \n\t') else any(ceq(cell,ch) is True for ch in ' \n\t'))
    def strip(s):
        a=0; b=len(s.c)
        while a<b and s._isblank(s.c[a]): a+=1
        while b>a and s._isblank(s.c[b-1]): b-=1
        return SymStr(s.c[a:b])
    def replace(s,old,new):
        old=SymStr.of(old); new=SymStr.of(new)
        if len(old.c)==0: return s
        out=[]; i=0
        while i<len(s.c):
            if i+len(old.c)<=len(s.c) and tobool(s._match_at(i,old)): out+=new.c; i+=len(old.c)
            else: out.append(s.c[i]); i+=1
        return SymStr(out)
    def split(s,sep):
        sep=SymStr.of(sep); out=[]; cur=[]; i=0
        while i<len(s.c):
            if i+len(sep.c)<=len(s.c) and tobool(s._match_at(i,sep)): out.append(SymStr(cur)); cur=[]; i+=len(sep.c)
            else: cur.append(s.c[i]); i+=1
        out.append(SymStr(cur)); return out
    def token(s):
        """if s is exactly one whole token return its id"""
        if s.c and all(isinstance(x,TK) for x in s.c) and len({x.tid for x in s.c})==1 and [x.k for x in s.c]==list(range(TOKENS[s.c[0].tid]['width'])): return s.c[0].tid
        return None
class SymInt:
    def __init__(s,z,digits): s.z=z; s.digits=digits
    def __gt__(s,o): return SBool(s.z>o)
def sh_str(x):
    if isinstance(x,SymInt): return newtok('int','%d',x,x.digits)
    return builtins.str(x)
def sh_int(x):
    if isinstance(x,SymStr):
        t=x.strip().token()
        if t is None: raise ValueError('invalid literal for int(): %r'%x)
        return TOKENS[t]['value']
    return builtins.int(x)
def sh_float(x):
    if isinstance(x,SymStr):
        t=x.strip().token()
        if t is None: raise ValueError('could not convert string to float: %r'%x)
        return ('FLOAT',t)
    return builtins.float(x)
def vp_mod(fmt,arg):
    if isinstance(arg,SymInt) and fmt=='%d': return newtok('int',fmt,arg,arg.digits)
    if isinstance(arg,tuple) and arg and arg[0]=='T': return newtok('float',fmt,arg,arg[2])
    return fmt % arg
