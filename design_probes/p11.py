import sys, ast, importlib, importlib.abc, importlib.machinery, time
import os; sys.path.insert(0, os.path.dirname(os.path.abspath(__file__))); sys.dont_write_bytecode=True
from symstr_p import *
class T(ast.NodeTransformer):
    def visit_BinOp(self, n):
        self.generic_visit(n)
        if isinstance(n.op, ast.Mod) and isinstance(n.left, ast.Constant) and isinstance(n.left.value, str):
            return ast.copy_location(ast.Call(ast.Name('__vp_mod__', ast.Load()), [n.left, n.right], []), n)
        return n
class Loader(importlib.machinery.SourceFileLoader):
    def source_to_code(self, data, path, *, _optimize=-1):
        tree=T().visit(ast.parse(data, path)); ast.fix_missing_locations(tree)
        return compile(tree, path, 'exec', dont_inherit=True, optimize=_optimize)
    def exec_module(self, module):
        module.__dict__.update(__vp_mod__=vp_mod, str=sh_str, int=sh_int, float=sh_float)
        super().exec_module(module)
class Finder(importlib.abc.MetaPathFinder):
    def find_spec(self, name, path, target=None):
        if name!='pmutt.io.thermdat': return None
        spec=importlib.machinery.PathFinder.find_spec(name, path)
        spec.loader=Loader(spec.loader.name, spec.loader.path); return spec
sys.meta_path.insert(0, Finder())
import pmutt.io.thermdat as td
class Sp: pass
L=int(sys.argv[1]) if len(sys.argv)>1 else 3
name=SymStr([SC(z3.Int('n%d'%i)) for i in range(L)])
for i in range(L): BASE += [z3.Int('n%d'%i)>32, z3.Int('n%d'%i)<127]
el=SymStr([SC(z3.Int('e0'))]); BASE+=[z3.Int('e0')>=65, z3.Int('e0')<=90]
cnt=SymInt(z3.Int('cnt'),1); BASE+=[z3.Int('cnt')>=1, z3.Int('cnt')<=9]
sp=Sp(); sp.name=name; sp.notes=None; sp.elements={'X':cnt}
# use symbolic element key: dict keys must hash -> use wrapper dict-like
class Elems:
    def items(s): return [(el,cnt)]
sp.elements=Elems(); sp.phase=SymStr([SC(z3.Int('ph'))]); BASE+=[z3.Int('ph')>32, z3.Int('ph')<127]
sp.T_low=('T','lo',5); sp.T_high=('T','hi',6); sp.T_mid=('T','mid',6)
def run():
    TOKENS.clear()
    line=td._write_line1(sp, write_date=False)
    # reader
    class D(dict): pass
    out=td._read_line1(line)
    return line, out
t=time.time(); res=explore(run)
print(len(res),'paths',NQ[0],'queries',round(time.time()-t,2),'s')
for pc,r in res[:6]:
    print([str(z3.simplify(c)) for c in pc][:6]); print('   ',r if r[0]=='EXC' else (r[0], {k:(v if k!='elements' else list(v.items())) for k,v in r[1].items()}))
