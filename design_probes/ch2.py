from typing import List
from pmutt.reaction import _parse_reaction_state, _write_reaction_state
from pmutt import parse_formula

class Sp:
    def __init__(self, name): self.name = name

def ok_name(n: str) -> bool:
    return (1 <= len(n) <= 3 and n[0].isalpha() and n[0].isascii()
            and all((ch.isascii() and (ch.isalnum() or ch in '()*_')) for ch in n))

def rt(n1: str, n2: str) -> bool:
    """
    pre: ok_name(n1) and ok_name(n2) and n1 != n2
    post: _
    """
    s = _write_reaction_state([Sp(n1), Sp(n2)], [2.0, 1.0])
    names, st = _parse_reaction_state(s)
    return names == [n1, n2] and st == [2.0, 1.0]

def pf(a: str, n: int, b: str, m: int) -> bool:
    """
    pre: len(a) == 1 and len(b) == 1 and a.isascii() and b.isascii() and a.isupper() and b.isupper() and a != b
    pre: 1 <= n <= 999 and 1 <= m <= 999
    post: _
    """
    d = parse_formula(a + str(n) + b + str(m))
    return d == {a: n, b: m}
