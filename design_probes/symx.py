"""probe: minimal symbolic real tracer with differentiation + z3 discharge"""
import z3, numpy as np, time
from fractions import Fraction

class E:  # expression node
    __slots__=('op','args')
    def __init__(s, op, *args): s.op=op; s.args=args
def const(v):
    if isinstance(v, Fraction): return E('c', v)
    if isinstance(v, (bool,)): raise TypeError
    if isinstance(v, (int, np.integer)): return E('c', Fraction(int(v)))
    if isinstance(v, (float, np.floating)): return E('c', snap(float(v)))
    raise TypeError(type(v))
import math
def snap(x):
    if x==0 or not math.isfinite(x): return Fraction(x)
    fx=Fraction(x); ulp=Fraction(math.ulp(x))
    lo,hi=fx-2*ulp,fx+2*ulp
    # simplest rational in [lo,hi] via Stern-Brocot / continued fractions
    def simplest(lo,hi):
        if lo>hi: lo,hi=hi,lo
        if lo<=0<=hi: return Fraction(0)
        if hi<0: return -simplest(-hi,-lo)
        fl=math.floor(lo)
        if fl==lo: return Fraction(fl)
        if fl+1<=hi: return Fraction(fl+1)
        return fl+1/simplest(1/(hi-fl),1/(lo-fl))
    return simplest(lo,hi)
def var(n): return E('v', n)
def lift(x):
    if isinstance(x, Sym): return x.e
    if isinstance(x, np.ndarray) and x.ndim==0: return lift(x.item())
    return const(x)
def is0(e): return e.op=='c' and e.args[0]==0
def is1(e): return e.op=='c' and e.args[0]==1
def add(a,b):
    if is0(a): return b
    if is0(b): return a
    if a.op=='c' and b.op=='c': return E('c', a.args[0]+b.args[0])
    return E('+',a,b)
def mul(a,b):
    if is0(a) or is0(b): return E('c',Fraction(0))
    if is1(a): return b
    if is1(b): return a
    if a.op=='c' and b.op=='c': return E('c', a.args[0]*b.args[0])
    return E('*',a,b)
def neg(a): return mul(E('c',Fraction(-1)),a)
def sub(a,b): return add(a,neg(b))
def div(a,b):
    if is1(b): return a
    if a.op=='c' and b.op=='c': return E('c', a.args[0]/b.args[0])
    return E('/',a,b)
def exp(a): return E('exp',a)
def log(a): return E('log',a)
def powi(a,n):
    if n==0: return E('c',Fraction(1))
    if n<0: return div(E('c',Fraction(1)), powi(a,-n))
    r=a
    for _ in range(n-1): r=mul(r,a)
    return r
def powr(a,q):  # a>0 assumed (side condition recorded)
    return exp(mul(const(q), log(a)))
def d(e, x):
    op=e.op
    if op=='c': return E('c',Fraction(0))
    if op=='v': return E('c',Fraction(1 if e.args[0]==x else 0))
    if op=='+': return add(d(e.args[0],x), d(e.args[1],x))
    if op=='*': return add(mul(d(e.args[0],x),e.args[1]), mul(e.args[0],d(e.args[1],x)))
    if op=='/':
        a,b=e.args
        return div(sub(mul(d(a,x),b), mul(a,d(b,x))), mul(b,b))
    if op=='exp': return mul(e, d(e.args[0],x))
    if op=='log': return div(d(e.args[0],x), e.args[0])
    raise NotImplementedError(op)

class Sym:
    __array_priority__=1000
    def __init__(s,e): s.e=e
    def __add__(s,o): return Sym(add(s.e,lift(o)))
    def __radd__(s,o): return Sym(add(lift(o),s.e))
    def __sub__(s,o): return Sym(sub(s.e,lift(o)))
    def __rsub__(s,o): return Sym(sub(lift(o),s.e))
    def __mul__(s,o): return Sym(mul(s.e,lift(o)))
    def __rmul__(s,o): return Sym(mul(lift(o),s.e))
    def __truediv__(s,o): return Sym(div(s.e,lift(o)))
    def __rtruediv__(s,o): return Sym(div(lift(o),s.e))
    def __neg__(s): return Sym(neg(s.e))
    def __pos__(s): return s
    def __pow__(s,o):
        if isinstance(o,Sym): raise NotImplementedError
        if float(o).is_integer(): return Sym(powi(s.e,int(o)))
        return Sym(powr(s.e, Fraction(float(o))))
    def __rpow__(s,o):  # c ** sym
        return Sym(exp(mul(s.e, log(lift(o)))))
    def __array_ufunc__(s, ufunc, method, *inputs, **kw):
        if method!='__call__': return NotImplemented
        n=ufunc.__name__
        if any(isinstance(i,np.ndarray) and i.ndim>0 for i in inputs):
            arrs=[np.asarray(i,dtype=object) if isinstance(i,np.ndarray) else i for i in inputs]
            b=np.broadcast(*[x if isinstance(x,np.ndarray) else np.empty((),dtype=object) for x in arrs])
            out=np.empty(b.shape,dtype=object)
            its=[np.broadcast_to(x,b.shape) if isinstance(x,np.ndarray) else None for x in arrs]
            for idx in np.ndindex(b.shape):
                args=[(it[idx] if it is not None else x) for it,x in zip(its,arrs)]
                sy=[x for x in args if isinstance(x,Sym)][0] if any(isinstance(x,Sym) for x in args) else s
                out[idx]=sy.__array_ufunc__(ufunc,method,*args,**kw)
            return out
        a=[Sym(lift(i)) for i in inputs]
        if n=='exp': return Sym(exp(a[0].e))
        if n=='log': return Sym(log(a[0].e))
        if n=='sinh': return (Sym(exp(a[0].e))-Sym(exp(neg(a[0].e))))/2
        if n=='cosh': return (Sym(exp(a[0].e))+Sym(exp(neg(a[0].e))))/2
        if n=='sqrt': return Sym(powr(a[0].e, Fraction(1,2)))
        if n=='add': return a[0]+a[1]
        if n=='subtract': return a[0]-a[1]
        if n=='multiply': return a[0]*a[1]
        if n in ('divide','true_divide'): return a[0]/a[1]
        if n=='negative': return -a[0]
        if n=='power': return a[0]**inputs[1]
        if n=='square': return a[0]*a[0]
        raise NotImplementedError(n)

class Z:
    def __init__(s):
        s.EXP=z3.Function('EXP',z3.RealSort(),z3.RealSort())
        s.LOG=z3.Function('LOG',z3.RealSort(),z3.RealSort())
        s.vars={}; s.exps=[]; s.logs=[]; s.memo={}
    def tr(s,e):
        k=id(e)
        if k in s.memo: return s.memo[k]
        op=e.op
        if op=='c': r=z3.RealVal(e.args[0])
        elif op=='v': r=s.vars.setdefault(e.args[0], z3.Real(e.args[0]))
        elif op=='+': r=s.tr(e.args[0])+s.tr(e.args[1])
        elif op=='*': r=s.tr(e.args[0])*s.tr(e.args[1])
        elif op=='/': r=s.tr(e.args[0])/s.tr(e.args[1])
        elif op=='exp':
            a=s.tr(e.args[0]); r=s.EXP(a); s.exps.append(a)
        elif op=='log':
            a=s.tr(e.args[0]); r=s.LOG(a); s.logs.append(a)
        s.memo[k]=r; s.__dict__.setdefault('keep',[]).append(e)
        return r
    def axioms(s):
        ax=[]
        seen=[]
        for a in s.exps:
            if any(a.eq(b) for b in seen): continue
            seen.append(a)
        for a in seen:
            ax+= [s.EXP(a)>0, z3.Implies(a>0,s.EXP(a)>1), z3.Implies(a<0,s.EXP(a)<1), z3.Implies(a==0,s.EXP(a)==1), s.EXP(a)>=1+a]
        for a in seen:
            for b in seen:
                ax.append(z3.Implies(a+b==0, s.EXP(a)*s.EXP(b)==1))
                for c_ in seen:
                    ax.append(z3.Implies(a+b==c_, s.EXP(a)*s.EXP(b)==s.EXP(c_)))
        return ax, len(seen)
def prove(lhs, rhs, assumptions_fn, timeout=60000, tol=None):
    zz=Z()
    L=zz.tr(lhs); R=zz.tr(rhs)
    s=z3.Solver(); s.set('timeout',timeout)
    for a in assumptions_fn(zz.vars): s.add(a)
    ax,n=zz.axioms()
    for a in ax: s.add(a)
    s.add(L!=R)
    t=time.time(); r=s.check(); 
    return str(r), n, time.time()-t, (s.model() if str(r)=='sat' else None)
for _n in ('exp','log','sinh','cosh','sqrt','square'):
    def _mk(n):
        uf=getattr(np,n)
        return lambda self: self.__array_ufunc__(uf,'__call__',self)
    setattr(Sym,_n,_mk(_n))
