import sys; import os; sys.path.insert(0, os.path.dirname(os.path.abspath(__file__)))
from symx import *
import random
def evalq(e, env):
    op=e.op
    if op=='c': return e.args[0]
    if op=='v': return env[e.args[0]]
    if op=='+': return evalq(e.args[0],env)+evalq(e.args[1],env)
    if op=='*': return evalq(e.args[0],env)*evalq(e.args[1],env)
    if op=='/': return evalq(e.args[0],env)/evalq(e.args[1],env)
    raise ValueError(op)
def collect(e, op, acc, seen):
    if id(e) in seen: return
    seen.add(id(e))
    if e.op in ('c','v'): return
    for a in e.args: collect(a, op, acc, seen)
    if e.op==op: acc.append(e)
def free_vars(e, acc, seen):
    if id(e) in seen: return
    seen.add(id(e))
    if e.op=='v': acc.add(e.args[0])
    elif e.op!='c':
        for a in e.args: free_vars(a,acc,seen)
class RF:
    """Expr -> (num,den) z3 polys; exp args grouped into bases"""
    def __init__(s, exprs):
        s.vars={}
        s.side=[]   # side obligations (z3 formulas to be proven)
        s.cons=[]   # constraints on abstraction vars
        exps=[]; seen=set()
        for e in exprs: collect(e,'exp',exps,seen)
        # group exp args by rational ratio (numeric guess)
        fv=set(); 
        for e in exps: free_vars(e.args[0],fv,set())
        env={v:Fraction(random.randint(3,97),random.randint(2,13)) for v in fv}
        s.bases=[]  # list of (arg_expr, val, lcm)
        s.expmap={} # id(exp node)->(base idx, Fraction k)
        for e in exps:
            val=evalq(e.args[0],env)
            for bi,(barg,bval,members) in enumerate(s.bases):
                if bval!=0 and val!=0:
                    k=val/bval
                    if k.denominator<=12 and abs(k.numerator)<=24:
                        members.append((e,k)); break
            else:
                s.bases.append((e.args[0],val,[(e,Fraction(1))]))
        s.memo={}
    def v(s,n): return s.vars.setdefault(n,z3.Real(n))
    def build(s):
        from math import lcm
        for bi,(barg,bval,members) in enumerate(s.bases):
            L=1
            for e,k in members: L=lcm(L,k.denominator)
            y=z3.Real('y%d'%bi)
            s.cons.append(y>0)
            bn,bd=s.rf(barg)
            # y = EXP(barg/L): barg>0 -> y>1 ; barg<0 -> y<1
            s.cons += [z3.Implies(bn*bd>0,y>1), z3.Implies(bn*bd<0,y<1), z3.Implies(bn==0,y==1)]
            for e,k in members:
                n=int(k*L)
                # side obligation: arg == k*barg
                an,ad=s.rf(e.args[0])
                s.side.append(an*bd*k.denominator == k.numerator*bn*ad)
                p=z3.RealVal(1)
                for _ in range(abs(n)): p=p*y
                s.expmap[id(e)]=(p,z3.RealVal(1)) if n>=0 else (z3.RealVal(1),p)
    def rf(s,e):
        k=id(e)
        if k in s.memo: return s.memo[k]
        op=e.op
        if op=='c':
            f=e.args[0]; r=(z3.RealVal(f.numerator), z3.RealVal(f.denominator))
        elif op=='v': r=(s.v(e.args[0]), z3.RealVal(1))
        elif op=='+':
            (a,b),(c_,d_)=s.rf(e.args[0]),s.rf(e.args[1])
            r=(a*d_+c_*b, b*d_) if not b.eq(d_) else (a+c_, b)
        elif op=='*':
            (a,b),(c_,d_)=s.rf(e.args[0]),s.rf(e.args[1]); r=(a*c_, b*d_)
        elif op=='/':
            (a,b),(c_,d_)=s.rf(e.args[0]),s.rf(e.args[1]); r=(a*d_, b*c_)
            s.side.append(c_!=0)
        elif op=='exp': r=s.expmap[k]
        else: raise NotImplementedError(op)
        s.memo[k]=r; return r
def prove2(lhs,rhs,assume,timeout=60000):
    R=RF([lhs,rhs]); R.build()
    (a,b),(c_,d_)=R.rf(lhs),R.rf(rhs)
    A=assume(R.vars)
    res={}
    t=time.time()
    s=z3.Solver(); s.set('timeout',timeout)
    s.add(*A); s.add(*R.cons)
    # side obligations
    s.push(); s.add(z3.Or(*[z3.Not(x) for x in R.side])) if R.side else None
    res['side']=str(s.check()) if R.side else 'unsat'; s.pop()
    s.push(); s.add(z3.Or(b==0,d_==0)); res['den']=str(s.check()); s.pop()
    s.push(); s.add(a*d_!=c_*b); res['main']=str(s.check()); 
    m=s.model() if res['main']=='sat' else None
    s.pop()
    return res, len(R.bases), round(time.time()-t,3), m
