import sys, ast, importlib, importlib.abc, importlib.machinery
class T(ast.NodeTransformer):
    def visit_BinOp(self, n):
        self.generic_visit(n)
        if isinstance(n.op, ast.Mod) and isinstance(n.left, ast.Constant) and isinstance(n.left.value, str):
            return ast.copy_location(ast.Call(ast.Name('__vp_mod__', ast.Load()), [n.left, n.right], []), n)
        return n
    def visit_Call(self, n):
        self.generic_visit(n)
        f=n.func
        if isinstance(f, ast.Attribute) and f.attr=='format':
            return ast.copy_location(ast.Call(ast.Name('__vp_format__', ast.Load()), [f.value]+n.args, n.keywords), n)
        return n
class Loader(importlib.machinery.SourceFileLoader):
    def source_to_code(self, data, path, *, _optimize=-1):
        tree=ast.parse(data, path)
        tree=T().visit(tree); ast.fix_missing_locations(tree)
        return compile(tree, path, 'exec', dont_inherit=True, optimize=_optimize)
    def exec_module(self, module):
        module.__dict__['__vp_mod__']=lambda f,a: ('MOD',f,a) if type(a).__name__=='Tok' else f % a
        module.__dict__['__vp_format__']=lambda f,*a,**k: f.format(*a,**k)
        super().exec_module(module)
class Finder(importlib.abc.MetaPathFinder):
    def find_spec(self, name, path, target=None):
        if not name.startswith('pmutt') or 'tests' in name: return None
        spec=importlib.machinery.PathFinder.find_spec(name, path)
        if spec and isinstance(spec.loader, importlib.machinery.SourceFileLoader):
            spec.loader=Loader(spec.loader.name, spec.loader.path)
        return spec
sys.meta_path.insert(0, Finder())
sys.dont_write_bytecode=True
import pmutt.io.thermdat as td
print(td.__loader__, '__vp_mod__' in td.__dict__)
from pmutt.empirical.nasa import Nasa
n=Nasa(name='H2O', T_low=200., T_mid=1000., T_high=3000., a_low=[1,2,3,4,5,6,7], a_high=[1,2,3,4,5,6,7], elements={'H':2,'O':1}, phase='G')
print(td.write_thermdat([n], write_date=False))
