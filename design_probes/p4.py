import sys; import os; sys.path.insert(0, os.path.dirname(os.path.abspath(__file__)))
from symx2 import *
from pmutt.statmech import vib
T=Sym(var('T'))
for nm in (1,2,3):
    hv=vib.HarmonicVib.__new__(vib.HarmonicVib)
    hv._valid_vib_temperatures=np.array([Sym(var('th%d'%i)) for i in range(nm)])
    U=hv.get_UoRT(T=T); Cv=hv.get_CvoR(T=T); S=hv.get_SoR(T=T)
    pos2=lambda V:[V['T']>=50, V['T']<=5000]+[z3.And(V[k]>=10, V[k]<=7000) for k in V if k.startswith('th')]
    print(nm,'dU', prove2(d((U*T).e,'T'), Cv.e, pos2)[:3])
