import sys; import os; sys.path.insert(0, os.path.dirname(os.path.abspath(__file__)))
from symx2 import *
from pmutt.statmech import vib
T=Sym(var('T'))
hv=vib.HarmonicVib.__new__(vib.HarmonicVib)
hv._valid_vib_temperatures=np.array([Sym(var('th%d'%i)) for i in range(2)])
U=hv.get_UoRT(T=T); Cv=hv.get_CvoR(T=T); S=hv.get_SoR(T=T)
pos2=lambda V:[V['T']>=50, V['T']<=5000]+[z3.And(V[k]>=10, V[k]<=7000) for k in V if k.startswith('th')]
r=prove2(d((U*T).e,'T'), (Cv*1.0001).e, pos2); print(r)
r=prove2(d(S.e,'T'), (Cv/T).e, pos2); print(r[:3])
# G = H - TS structural
G=hv.get_GoRT(T=T); H=hv.get_HoRT(T=T)
print(prove2(G.e,(H-S).e,pos2)[:3])
