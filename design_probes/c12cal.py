import inspect, re, ast, math
from pmutt import constants as c
src=inspect.getsource(c.convert_unit)
m=re.search(r'unit_dict = (\{[\s\S]*?\n    \})', src); ud=eval(m.group(1))
td=c.type_dict
print('in unit_dict not type_dict:', [k for k in ud if k not in td]); print('in type_dict not unit_dict:', [k for k in td if k not in ud and td[k]!='temp'])
def rel(a,b): return abs(a-b)/abs(b)
# area / volume vs length
for u in ['m','cm','A','km','inch','ft']:
    for suf,p in (('2',2),('3',3)):
        k=u+suf
        if k in ud: print(k, 'rel err', '%.2e'%rel(ud[k], ud[u]**p))
print('mL', ud['mL'], 'L', ud['L'])
print('L atm', ud['L atm'], 'expected', ud['L']*ud['atm'], rel(ud['L atm'], ud['L']*ud['atm']))
for k in ['cal','kcal','eV','Eh','Ha']: print(k, ud[k])
print('cal vs 1/4.184', rel(ud['cal'],1/4.184), 'kcal', rel(ud['kcal'],1/4184))
print('eV vs 1/e', rel(ud['eV'],1/c.e))
# R table
def getdict(fn,name):
    s=inspect.getsource(fn); m=re.search(name+r' = (\{[\s\S]*?\n    \})', s); return eval(m.group(1), {'np':__import__('numpy'),'Na':c.Na,'e':c.e})
R=getdict(c.R,'R_dict'); print(R)
RJ=R['J/mol/K']
exp={'kJ/mol/K':RJ*ud['kJ'],'L kPa/mol/K':RJ*ud['L']*ud['kPa'],'cm3 kPa/mol/K':RJ*ud['cm3']*ud['kPa'],'m3 Pa/mol/K':RJ,'cm3 MPa/mol/K':RJ*ud['cm3']*ud['MPa'],
 'm3 bar/mol/K':RJ*ud['bar'],'L bar/mol/K':RJ*ud['L']*ud['bar'],'L torr/mol/K':RJ*ud['L']*ud['torr'],'cal/mol/K':RJ*ud['cal'],'kcal/mol/K':RJ*ud['kcal'],
 'L atm/mol/K':RJ*ud['L']*ud['atm'],'cm3 atm/mol/K':RJ*ud['cm3']*ud['atm'],'eV/K':RJ*ud['eV']/c.Na,'Eh/K':RJ*ud['Eh']/c.Na,'Ha/K':RJ*ud['Ha']/c.Na}
for k,v in exp.items(): print('R',k, R.get(k), '%.2e'%rel(R[k],v) if k in R else 'MISSING')
print('R=kb*Na', rel(RJ, c.kb('J/K')*c.Na))
for fn,nm in ((c.h,'h_dict'),(c.kb,'kb_dict'),(c.c,'c_dict'),(c.P0,'P0_dict'),(c.T0,'T0_dict'),(c.V0,'V0_dict'),(c.m_e,'m_e_dict'),(c.m_p,'m_p_dict')):
    try: print(nm, getdict(fn,nm))
    except Exception as ex: print(nm,'ERR',ex); print(inspect.getsource(fn)[-600:])
