from typing import List
from pmutt.io.cantera import obj_to_cti

def check_cti(tokens: List[str], line_len: int) -> bool:
    """
    pre: 1 <= len(tokens) <= 3
    pre: all(1 <= len(t) <= 4 and all(c in 'ab' for c in t) for t in tokens)
    pre: 8 <= line_len <= 12
    post: _
    """
    s = obj_to_cti(tokens, line_len=line_len, max_line_len=line_len)
    if s.startswith('"""'):
        body = s[3:-3]
    else:
        body = s[1:-1]
    lines = s.split('\n')
    fits = all(len(l) <= line_len or len(l.split()) == 1 for l in lines)
    return body.split() == tokens and fits
