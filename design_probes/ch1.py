from typing import List
import re
from pmutt.cantera import _get_omkm_range
from pmutt.io.cantera import obj_to_cti

def expand(out: List[str]) -> set:
    ids = set()
    for item in out:
        item = item.strip('"')
        if ' to ' in item:
            a, b = item.split(' to ')
            i = a.rfind('_'); j = b.rfind('_')
            ha = a[:i+1]; hb = b[:j+1]
            for k in range(int(a[i+1:]), int(b[j+1:]) + 1):
                ids.add(ha + '%04d' % k)
        else:
            ids.add(item)
    return ids

def check_range(ids: List[str]) -> bool:
    """
    pre: 1 <= len(ids) <= 2
    pre: all(1 <= len(s) <= 6 for s in ids)
    post: _
    raises: ValueError
    """
    out = _get_omkm_range(ids, format='list')
    return expand(out) == set(ids)

def check_cti(tokens: List[str], line_len: int) -> bool:
    """
    pre: 1 <= len(tokens) <= 4
    pre: all(1 <= len(t) <= 5 and ' ' not in t and '\n' not in t for t in tokens)
    pre: 8 <= line_len <= 14
    post: _
    """
    s = obj_to_cti(tokens, line_len=line_len, max_line_len=line_len)
    body = s.strip('"')
    return body.split() == tokens
