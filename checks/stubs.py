"""Stub species implementing pMuTT's documented getter protocol.

Each getter returns  c0 + c1*T + c2*P  (+ c3 when include_ZPE / S_elements style flags are set)
with its own symbolic coefficients, so the value is a function of the keyword arguments the
species actually RECEIVES: a caller that drops, mis-routes or mutates T / P / per-species
blocks produces a different term and the solver returns conditions that separate them.
The same class runs with plain floats in replay.
"""
DEF_T = 1234.5      # defaults chosen so that a dropped keyword is visible in the value
DEF_P = 7.0

QUANTS = ['q', 'CvoR', 'CpoR', 'UoRT', 'HoRT', 'SoR', 'FoRT', 'GoRT', 'EoRT']


class StubSpecies:
    def __init__(self, ctx, name, phase='G', cat_site=None, elements=None, positive=('q',), lo=-50, hi=50, n_sites=None,
                 quantities=QUANTS, consistent=False):
        self.name = name
        self.phase = phase
        self.cat_site = cat_site
        self.elements = elements
        self.n_sites = n_sites
        self.notes = None
        self.calls = []
        self.c = {}
        for q in quantities:
            if q in positive:
                self.c[q] = [ctx.real('%s.%s.c%d' % (name, q, i), 0.1, 10) for i in range(3)]
            else:
                self.c[q] = [ctx.real('%s.%s.c0' % (name, q), lo, hi),
                             ctx.real('%s.%s.c1' % (name, q), -0.01, 0.01),
                             ctx.real('%s.%s.c2' % (name, q), -1, 1)]
        self.zpe = ctx.real('%s.zpe' % name, 0, 5)
        self.consistent = consistent

    def _val(self, q, T, P):
        c = self.c[q]
        return c[0] + c[1] * T + c[2] * P

    def _rec(self, method, T, P, kwargs):
        self.calls.append((method, T, P, dict(kwargs)))

    def get_q(self, T=DEF_T, P=DEF_P, **kwargs):
        self._rec('get_q', T, P, kwargs)
        return self._val('q', T, P)

    def get_CvoR(self, T=DEF_T, P=DEF_P, **kwargs):
        self._rec('get_CvoR', T, P, kwargs)
        return self._val('CvoR', T, P)

    def get_CpoR(self, T=DEF_T, P=DEF_P, **kwargs):
        self._rec('get_CpoR', T, P, kwargs)
        return self._val('CpoR', T, P)

    def get_UoRT(self, T=DEF_T, P=DEF_P, **kwargs):
        self._rec('get_UoRT', T, P, kwargs)
        return self._val('UoRT', T, P)

    def get_HoRT(self, T=DEF_T, P=DEF_P, **kwargs):
        self._rec('get_HoRT', T, P, kwargs)
        return self._val('HoRT', T, P)

    def get_SoR(self, T=DEF_T, P=DEF_P, **kwargs):
        self._rec('get_SoR', T, P, kwargs)
        return self._val('SoR', T, P)

    def get_FoRT(self, T=DEF_T, P=DEF_P, **kwargs):
        self._rec('get_FoRT', T, P, kwargs)
        if self.consistent:
            return self._val('UoRT', T, P) - self._val('SoR', T, P)
        return self._val('FoRT', T, P)

    def get_GoRT(self, T=DEF_T, P=DEF_P, **kwargs):
        self._rec('get_GoRT', T, P, kwargs)
        if self.consistent:
            return self._val('HoRT', T, P) - self._val('SoR', T, P)
        return self._val('GoRT', T, P)

    def get_EoRT(self, T=DEF_T, P=DEF_P, include_ZPE=False, **kwargs):
        self._rec('get_EoRT', T, P, dict(kwargs, include_ZPE=include_ZPE))
        v = self._val('EoRT', T, P)
        if include_ZPE:
            v = v + self.zpe
        return v

    # dimensional forms used by BEP descriptors / E_span through Reaction.get_X_state are
    # computed by Reaction itself from the dimensionless getters.


class CatSite:
    def __init__(self, name, site_density, bulk_specie):
        self.name = name
        self.site_density = site_density
        self.bulk_specie = bulk_specie
        self.density = None


def ref_val(sp, q, T, P, include_ZPE=False):
    """the value the stub must contribute when it receives exactly (T, P)"""
    if getattr(sp, 'consistent', False) and q == 'GoRT':
        return ref_val(sp, 'HoRT', T, P) - ref_val(sp, 'SoR', T, P)
    if getattr(sp, 'consistent', False) and q == 'FoRT':
        return ref_val(sp, 'UoRT', T, P) - ref_val(sp, 'SoR', T, P)
    c = sp.c[q]
    v = c[0] + c[1] * T + c[2] * P
    if q == 'EoRT' and include_ZPE:
        v = v + sp.zpe
    return v
