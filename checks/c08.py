"""C08  Hess's law, reversal symmetry, detailed balance, keyword routing."""
from checks.common import *
from checks.stubs import StubSpecies, ref_val, DEF_T, DEF_P

META = dict(
    functions=['pmutt.reaction.Reaction.get_state_quantity/get_delta_quantity/_parse_state', 'Reaction.get_*_state', 'Reaction.get_delta_*',
               'Reaction.get_*_act', 'Reaction.get_Keq', 'pmutt.reaction._get_states', 'pmutt._get_specie_kwargs',
               'pmutt._force_pass_arguments', 'ChemkinReaction / omkm SurfaceReaction (unclamped getters)'],
    bounds=dict(quick='1-2 reactants, 1-2 products, 0-2 transition-state species; stoichiometric coefficients symbolic reals in [0.25,4]; '
                      'T in [50,5000], P and per-species P in [1e-4,1e3]; every species value an affine function of the T and P it '
                      'receives with symbolic coefficients; classes Reaction, ChemkinReaction, SurfaceReaction',
                thorough='up to 3 reactants / 3 products'),
    outside_claim=['more than 3 species per side (the loop body is identical per species)', 'IEEE rounding'],
    stubs=['species = StubSpecies (documented getter protocol; value = c0 + c1*T + c2*P of the keywords it receives)'],
    assumptions=['q values positive'],
)

QS = ['CvoR', 'CpoR', 'UoRT', 'HoRT', 'SoR', 'FoRT', 'GoRT']
DIMENSIONAL = {'HoRT': ('H', True), 'GoRT': ('G', True), 'SoR': ('S', False), 'UoRT': ('U', True), 'FoRT': ('F', True), 'CpoR': ('Cp', False), 'CvoR': ('Cv', False)}
NAMES = dict(r=['A', 'AB', 'A2B'], p=['B', 'A2', 'BA'], t=['TS', 'AB_TS'])


def _cls(kind):
    if kind == 'Reaction':
        from pmutt.reaction import Reaction
        return Reaction, {}
    if kind == 'ChemkinReaction':
        from pmutt.reaction import ChemkinReaction
        return ChemkinReaction, {}
    from pmutt.omkm.reaction import SurfaceReaction
    return SurfaceReaction, {}


def _build(ctx, kind, nr, npr, nts):
    cls, extra = _cls(kind)
    R = [StubSpecies(ctx, n) for n in NAMES['r'][:nr]]
    P = [StubSpecies(ctx, n) for n in NAMES['p'][:npr]]
    TS = [StubSpecies(ctx, n) for n in NAMES['t'][:nts]]
    nuR = [ctx.real('nu_%s' % s.name, 0.25, 4) for s in R]
    nuP = [ctx.real('nu_%s' % s.name, 0.25, 4) for s in P]
    nuT = [ctx.real('nu_%s' % s.name, 0.25, 4) for s in TS]
    rxn = cls(reactants=R, reactants_stoich=list(nuR), products=P, products_stoich=list(nuP),
              transition_state=TS if nts else None, transition_state_stoich=list(nuT) if nts else None, **extra)
    return rxn, (R, nuR), (P, nuP), (TS, nuT)


def _conds(ctx, species_with_block):
    T = ctx.real('T', 50, 5000)
    P = ctx.real('P', 1e-4, 1e3)
    blocks = {}
    for n in species_with_block:
        blocks[n] = ctx.real('P_%s' % n, 1e-4, 1e3)
    return T, P, blocks


def _sum(side, q, T, P, blocks, **kw):
    sp, nu = side
    tot = 0
    for s, n in zip(sp, nu):
        tot = tot + n * ref_val(s, q, T, blocks.get(s.name, P), **kw)
    return tot


def _snapshot(d):
    return {k: (dict(v) if isinstance(v, dict) else v) for k, v in d.items()}


def _same(d0, d1):
    if set(d0) != set(d1):
        return False
    for k in d0:
        a, b = d0[k], d1[k]
        if isinstance(a, dict):
            if not isinstance(b, dict) or set(a) != set(b) or any(a[x] is not b[x] for x in a):
                return False
        elif a is not b and not (isinstance(a, (int, float)) and a == b):
            return False
    return True


def h_state_delta(ctx, kind, nr, npr, nts, q):
    rxn, Rs, Ps, Ts = _build(ctx, kind, nr, npr, nts)
    blocked = ['A'] + (['B'] if npr > 1 else []) + (['TS'] if nts else [])
    T, P, blocks = _conds(ctx, blocked)
    kw = dict(T=T, P=P)
    for n, p in blocks.items():
        kw['%s_kwargs' % n] = {'P': p}
    before = _snapshot(kw)
    g = lambda name, **a: getattr(rxn, name)(**dict(kw, **a))
    r = _sum(Rs, q, T, P, blocks)
    p = _sum(Ps, q, T, P, blocks)
    ctx.eq('%s_state(reactants) = sum nu X' % q, g('get_%s_state' % q, state='reactants'), r)
    ctx.eq('%s_state(products) = sum nu X' % q, g('get_%s_state' % q, state='products'), p)
    ctx.eq('delta_%s = products - reactants' % q, g('get_delta_%s' % q), p - r)
    ctx.eq('delta_%s(rev) = -delta' % q, g('get_delta_%s' % q, rev=True), r - p)
    if nts:
        t = _sum(Ts, q, T, P, blocks)
        ctx.eq('%s_state(transition state) = sum nu X' % q, g('get_%s_state' % q, state='transition state'), t)
        ctx.eq('%s_state(ts) alias' % q, g('get_%s_state' % q, state='TS'), t)
        ctx.eq('delta_%s(act) = TS - reactants' % q, g('get_delta_%s' % q, act=True), t - r)
        ctx.eq('delta_%s(act, rev) = TS - products' % q, g('get_delta_%s' % q, act=True, rev=True), t - p)
        if kind == 'Reaction' or q not in ('HoRT', 'GoRT'):
            # (the Chemkin / OpenMKM classes clamp H and G activation getters: C09)
            ctx.eq('%s_act = delta(act)' % q, g('get_%s_act' % q), t - r)
            ctx.eq('%s_act(rev) = delta(act, rev)' % q, g('get_%s_act' % q, rev=True), t - p)
            ctx.eq('%s_act(fwd) - %s_act(rev) = delta' % (q, q), g('get_%s_act' % q) - g('get_%s_act' % q, rev=True), p - r)
    if q in DIMENSIONAL:
        # the same change in units (x R, x T for energies)
        from pmutt import constants as c
        name, energy = DIMENSIONAL[q]
        fac = c.R('kJ/mol/K') * (T if energy else 1.0)
        un = 'kJ/mol' if energy else 'kJ/mol/K'
        ctx.eq('delta_%s(kJ/mol) = products - reactants' % name, g('get_delta_%s' % name, units=un), (p - r) * fac)
        if nts:
            ctx.eq('delta_%s(kJ/mol, act) = TS - reactants' % name, g('get_delta_%s' % name, units=un, act=True), (t - r) * fac)
            ctx.eq('delta_%s(kJ/mol, act, rev) = TS - products' % name, g('get_delta_%s' % name, units=un, act=True, rev=True), (t - p) * fac)
    ctx.true('caller-supplied condition dictionaries unmodified', _same(before, kw))
    # every species saw its own block merged over the common conditions, nobody else's
    for side in (Rs, Ps, Ts):
        for s in side[0]:
            for (m, t_, p_, extra) in s.calls:
                ctx.true('%s received no *_kwargs block' % s.name, not any('kwargs' in k for k in extra))


def h_E(ctx, kind, nr, npr, nts, zpe):
    rxn, Rs, Ps, Ts = _build(ctx, kind, nr, npr, nts)
    T, P, blocks = _conds(ctx, ['A'])
    kw = dict(T=T, P=P, A_kwargs={'P': blocks['A']})
    r = _sum(Rs, 'EoRT', T, P, blocks, include_ZPE=zpe)
    p = _sum(Ps, 'EoRT', T, P, blocks, include_ZPE=zpe)
    ctx.eq('EoRT_state(reactants)', rxn.get_EoRT_state(state='reactants', include_ZPE=zpe, **kw), r)
    ctx.eq('delta_EoRT', rxn.get_delta_EoRT(include_ZPE=zpe, **kw), p - r)
    ctx.eq('delta_EoRT(rev) = -delta', rxn.get_delta_EoRT(rev=True, include_ZPE=zpe, **kw), r - p)
    if nts:
        t = _sum(Ts, 'EoRT', T, P, blocks, include_ZPE=zpe)
        ctx.eq('delta_EoRT(act)', rxn.get_delta_EoRT(act=True, include_ZPE=zpe, **kw), t - r)
        ctx.eq('delta_EoRT(act) - delta_EoRT(act,rev) = delta',
               rxn.get_delta_EoRT(act=True, include_ZPE=zpe, **kw) - rxn.get_delta_EoRT(act=True, rev=True, include_ZPE=zpe, **kw), p - r)
    # the energy in units is the same weighted sum (x R T)
    from pmutt import constants as c
    RT = c.R('kJ/mol/K') * T
    ctx.eq('E_state(reactants, kJ/mol) = sum nu E', rxn.get_E_state(state='reactants', units='kJ/mol', include_ZPE=zpe, **kw), r * RT)
    ctx.eq('E_state(products, kJ/mol) = sum nu E', rxn.get_E_state(state='products', units='kJ/mol', include_ZPE=zpe, **kw), p * RT)
    ctx.eq('delta_E(kJ/mol) = E(products) - E(reactants)', rxn.get_delta_E(units='kJ/mol', include_ZPE=zpe, **kw), (p - r) * RT)
    ctx.eq('delta_E(kJ/mol, rev) = -delta_E', rxn.get_delta_E(units='kJ/mol', rev=True, include_ZPE=zpe, **kw), (r - p) * RT)
    if nts:
        ctx.eq('E_state(transition state, kJ/mol) = sum nu E', rxn.get_E_state(state='transition state', units='kJ/mol', include_ZPE=zpe, **kw), t * RT)
        ctx.eq('delta_E(kJ/mol, act) = E(TS) - E(reactants)', rxn.get_delta_E(units='kJ/mol', act=True, include_ZPE=zpe, **kw), (t - r) * RT)
        ctx.eq('delta_E(kJ/mol, act, rev) = E(TS) - E(products)', rxn.get_delta_E(units='kJ/mol', act=True, rev=True, include_ZPE=zpe, **kw), (t - p) * RT)
        # (get_E_act / get_EoRT_act are Arrhenius activation energies derived from the enthalpy, not electronic energies: C09)


def _prod(ctx, side, T, P, blocks):
    sp, nu = side
    tot = 1.0
    for s, n in zip(sp, nu):
        tot = tot * exp(ctx, n * log(ctx, ref_val(s, 'q', T, blocks.get(s.name, P))))
    return tot


def h_q(ctx, kind, nr, npr, nts):
    rxn, Rs, Ps, Ts = _build(ctx, kind, nr, npr, nts)
    T, P, blocks = _conds(ctx, ['A'])
    kw = dict(T=T, P=P, A_kwargs={'P': blocks['A']})
    r = _prod(ctx, Rs, T, P, blocks)
    p = _prod(ctx, Ps, T, P, blocks)
    ctx.eq('q_state(reactants) = prod q^nu', rxn.get_q_state(state='reactants', **kw), r)
    ctx.eq('q_state(products) = prod q^nu', rxn.get_q_state(state='products', **kw), p)
    ctx.eq('delta_q = products / reactants', rxn.get_delta_q(**kw), p / r)
    ctx.eq('delta_q(fwd) * delta_q(rev) = 1', rxn.get_delta_q(**kw) * rxn.get_delta_q(rev=True, **kw), 1.0)
    if nts:
        t = _prod(ctx, Ts, T, P, blocks)
        ctx.eq('delta_q(act) = TS / reactants', rxn.get_delta_q(act=True, **kw), t / r)
        ctx.eq('q_act(fwd) / q_act(rev) = delta_q', rxn.get_q_act(**kw) / rxn.get_q_act(rev=True, **kw), p / r)


def h_Keq(ctx, kind, nr, npr, nts):
    rxn, Rs, Ps, Ts = _build(ctx, kind, nr, npr, nts)
    T, P, blocks = _conds(ctx, ['A'])
    kw = dict(T=T, P=P, A_kwargs={'P': blocks['A']})
    r = _sum(Rs, 'GoRT', T, P, blocks)
    p = _sum(Ps, 'GoRT', T, P, blocks)
    ctx.eq('Keq = exp(-deltaG/RT)', rxn.get_Keq(**kw), exp(ctx, -(p - r)))
    ctx.eq('Keq(fwd) * Keq(rev) = 1', rxn.get_Keq(**kw) * rxn.get_Keq(rev=True, **kw), 1.0)
    ctx.true('Keq > 0', rxn.get_Keq(**kw) > 0)
    if nts:
        t = _sum(Ts, 'GoRT', T, P, blocks)
        ctx.eq('Keq(act) = exp(-deltaG_act/RT)', rxn.get_Keq(act=True, **kw), exp(ctx, -(t - r)))
        ctx.eq('Keq(act,fwd) / Keq(act,rev) = Keq', rxn.get_Keq(act=True, **kw) / rxn.get_Keq(act=True, rev=True, **kw),
               rxn.get_Keq(**kw))


def h_reuse(ctx, kind):
    """two calls reusing the same per-species block at different conditions (history of 2)"""
    rxn, Rs, Ps, Ts = _build(ctx, kind, 2, 1, 0)
    T1 = ctx.real('T1', 50, 5000)
    T2 = ctx.real('T2', 50, 5000)
    P = ctx.real('P', 1e-4, 1e3)
    pA = ctx.real('P_A', 1e-4, 1e3)
    blk = {'P': pA}
    rxn.get_delta_HoRT(T=T1, P=P, A_kwargs=blk)
    ctx.true('per-species block unmodified after first call', set(blk) == {'P'} and blk['P'] is pA)
    got = rxn.get_delta_HoRT(T=T2, P=P, A_kwargs=blk)
    blocks = {'A': pA}
    ctx.eq('second call with the same block at a new T', got, _sum(Ps, 'HoRT', T2, P, blocks) - _sum(Rs, 'HoRT', T2, P, blocks))


TRICKY = [['H2_gas', 'H2'], ['Ar', 'A'], ['CH3_s', 'CH3_'], ['OHk', 'kwargs'], ['W_w', 'Ag_kwargs'], ['CO(S)', 'O(S)'], ['O(S)', 'CO(S)']]


def h_names(ctx, kind, names):
    """per-species blocks reach exactly their species whatever the species are called: names ending in characters of
    '_kwargs', names that are prefixes of one another, a name that itself ends in '_kwargs'"""
    cls, extra = _cls(kind)
    sp = [StubSpecies(ctx, n) for n in names]
    prod = StubSpecies(ctx, 'P0')
    nu = [ctx.real('nu%d' % i, 0.25, 4) for i in range(len(sp))]
    rxn = cls(reactants=sp, reactants_stoich=list(nu), products=[prod], products_stoich=[1.], **extra)
    T = ctx.real('T', 50, 5000)
    P = ctx.real('P', 1e-4, 1e3)
    kw = dict(T=T, P=P)
    own = {}
    for i, s in enumerate(sp):
        own[s.name] = ctx.real('P_block%d' % i, 1e-4, 1e3)
        kw['%s_kwargs' % s.name] = {'P': own[s.name]}
    before = _snapshot(kw)
    for q in ('HoRT', 'GoRT'):
        want = 0
        for s, n in zip(sp, nu):
            want = want + n * ref_val(s, q, T, own[s.name])
        ctx.eq('%s_state(reactants): every species evaluated at the pressure of its own block' % q, getattr(rxn, 'get_%s_state' % q)(state='reactants', **kw), want)
        ctx.eq('delta_%s: product at the common pressure, reactants at their own' % q, getattr(rxn, 'get_delta_%s' % q)(**kw), ref_val(prod, q, T, P) - want)
    ctx.true('caller-supplied condition dictionaries unmodified', _same(before, kw))


def h_array_T(ctx, kind):
    """an array of temperatures gives, element by element, what each temperature gives alone"""
    rxn, Rs, Ps, Ts = _build(ctx, kind, 2, 1, 1)
    P = ctx.real('P', 1e-4, 1e3)
    T = [ctx.real('T%d' % i, 50, 5000) for i in range(2)]
    Tarr = np_array(ctx, T)
    for q in ('HoRT', 'GoRT', 'SoR'):
        for call, kw in (('get_%s_state' % q, dict(state='reactants')), ('get_delta_%s' % q, {}), ('get_delta_%s' % q, dict(act=True, rev=True))):
            got = getattr(rxn, call)(T=Tarr, P=P, **kw)
            ok = hasattr(got, '__len__') and len(got) == 2
            ctx.true('%s%s: one value per temperature' % (call, kw or ''), ok)
            if ok:
                for i in range(2):
                    ctx.eq('%s%s[%d] = value at that temperature alone' % (call, kw or '', i), got[i], getattr(rxn, call)(T=T[i], P=P, **kw))


def groups(tier):
    th = tier == 'thorough'
    g = []
    for kind in ('Reaction', 'ChemkinReaction', 'SurfaceReaction'):
        g.append(dict(name='%s/array-of-temperatures' % kind, harness=h_array_T, params=dict(kind=kind)))
        for names in TRICKY:
            if kind != 'Reaction' and not th and names is not TRICKY[0]:
                continue
            g.append(dict(name='%s/species-names/%s' % (kind, '+'.join(names)), harness=h_names, params=dict(kind=kind, names=names)))
    shapes = [(1, 1, 0), (2, 1, 1), (1, 2, 2), (2, 2, 1)]
    if th:
        shapes += [(3, 2, 0), (2, 3, 2), (3, 3, 1)]
    for kind in ('Reaction', 'ChemkinReaction', 'SurfaceReaction'):
        for (nr, npr, nts) in shapes:
            if kind != 'Reaction' and not th and (nr, npr, nts) in ((1, 1, 0), (1, 2, 2)):
                continue
            tag = '%s/%dr%dp%dts' % (kind, nr, npr, nts)
            for q in QS:
                g.append(dict(name='%s/%s' % (tag, q), harness=h_state_delta, params=dict(kind=kind, nr=nr, npr=npr, nts=nts, q=q)))
            for zpe in (False, True):
                g.append(dict(name='%s/EoRT/zpe=%s' % (tag, zpe), harness=h_E, params=dict(kind=kind, nr=nr, npr=npr, nts=nts, zpe=zpe)))
            g.append(dict(name='%s/q' % tag, harness=h_q, params=dict(kind=kind, nr=nr, npr=npr, nts=nts)))
            g.append(dict(name='%s/Keq' % tag, harness=h_Keq, params=dict(kind=kind, nr=nr, npr=npr, nts=nts)))
        g.append(dict(name='%s/block-reuse' % kind, harness=h_reuse, params=dict(kind=kind)))
    return g
