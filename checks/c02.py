"""C02  NASA-7 / NASA-9 / Shomate internal consistency."""
from checks.common import *

META = dict(
    functions=['pmutt.empirical.nasa.get_nasa_CpoR/HoRT/SoR', 'get_nasa9_CpoR/HoRT/SoR',
               'pmutt.empirical.shomate.get_shomate_CpoR/HoRT/SoR/GoRT', 'Nasa.get_a', 'Nasa.get_CpoR/HoRT/SoR/GoRT',
               'Nasa9._get_nasa', 'Nasa9.get_CpoR/HoRT/SoR/GoRT', 'SingleNasa9.get_*', 'Shomate.get_CpoR/HoRT/SoR/GoRT',
               'Shomate._check_T'],
    bounds=dict(quick='all coefficients unbounded reals; 50<=T_low<T_mid<T_high<=6000; T inside the range; NASA-9 1-3 segments '
                      '(arbitrary, possibly non-contiguous/unordered bounds for the selection obligations); arrays of length 1-2',
                thorough='as quick with NASA-9 1-4 segments and arrays of length 1-3'),
    outside_claim=['arrays longer than 3 (loop body identical per element)', 'integer temperature containers for NASA-9/Shomate',
                   'IEEE rounding'],
    stubs=[],
    assumptions=['misc_models empty (their summation is C13)'],
)


# --- textbook forms (independent of the code) -------------------------------------------
def nasa7_ref(a, T, logT):
    Cp = a[0] + a[1] * T + a[2] * T**2 + a[3] * T**3 + a[4] * T**4
    H = a[0] + a[1] * T / 2 + a[2] * T**2 / 3 + a[3] * T**3 / 4 + a[4] * T**4 / 5 + a[5] / T
    S = a[0] * logT + a[1] * T + a[2] * T**2 / 2 + a[3] * T**3 / 3 + a[4] * T**4 / 4 + a[6]
    return Cp, H, S


def nasa9_ref(a, T, logT):
    Cp = a[0] / T**2 + a[1] / T + a[2] + a[3] * T + a[4] * T**2 + a[5] * T**3 + a[6] * T**4
    H = -a[0] / T**2 + a[1] * logT / T + a[2] + a[3] * T / 2 + a[4] * T**2 / 3 + a[5] * T**3 / 4 + a[6] * T**4 / 5 + a[7] / T
    S = -a[0] / T**2 / 2 - a[1] / T + a[2] * logT + a[3] * T + a[4] * T**2 / 2 + a[5] * T**3 / 3 + a[6] * T**4 / 4 + a[8]
    return Cp, H, S


def shomate_ref(a, T, logt, R):
    """NIST webbook Shomate equations, t = T/1000; H in k(unit), returns dimensionless"""
    t = T / 1000
    A, B, C, D, E, F, G, H_ = a
    Cp = A + B * t + C * t**2 + D * t**3 + E / t**2
    H = A * t + B * t**2 / 2 + C * t**3 / 3 + D * t**4 / 4 - E / t + F
    S = A * logt + B * t + C * t**2 / 2 + D * t**3 / 3 - E / (2 * t**2) + G
    return Cp / R, H * 1000 / (R * T), S / R


def _coeffs(ctx, prefix, n):
    return [ctx.real('%s%d' % (prefix, i)) for i in range(n)]


def _first(v):
    """public helpers sometimes return 1-element arrays for scalar input"""
    import numpy as np
    if isinstance(v, np.ndarray):
        assert v.size == 1, 'expected a single value, got shape %r' % (v.shape,)
        return v.ravel()[0]
    return v


# --- evaluators ---------------------------------------------------------------------------
def h_nasa7_eval(ctx):
    from pmutt.empirical.nasa import get_nasa_CpoR, get_nasa_HoRT, get_nasa_SoR
    a = _coeffs(ctx, 'a', 7)
    T = ctx.real('T', 50, 6000)
    Cp = get_nasa_CpoR(a=np_array(ctx, a), T=T)
    H = get_nasa_HoRT(a=np_array(ctx, a), T=T)
    S = get_nasa_SoR(a=np_array(ctx, a), T=T)
    ctx.eq('d(T*H/RT)/dT = Cp/R', ctx.deriv(lambda t: t * get_nasa_HoRT(a=np_array(ctx, a), T=t), T), Cp, info='deriv')
    ctx.eq('dS/dT = Cp/(RT)', ctx.deriv(lambda t: get_nasa_SoR(a=np_array(ctx, a), T=t), T), Cp / T, info='deriv')
    rCp, rH, rS = nasa7_ref(a, T, log(ctx, T))
    ctx.eq('Cp = textbook', Cp, rCp)
    ctx.eq('H = textbook', H, rH)
    ctx.eq('S = textbook', S, rS)


def h_nasa9_eval(ctx):
    from pmutt.empirical.nasa import get_nasa9_CpoR, get_nasa9_HoRT, get_nasa9_SoR
    a = _coeffs(ctx, 'a', 9)
    T = ctx.real('T', 50, 6000)
    A = np_array(ctx, a)
    Cp = _first(get_nasa9_CpoR(a=A, T=T))
    H = _first(get_nasa9_HoRT(a=A, T=T))
    S = _first(get_nasa9_SoR(a=A, T=T))
    ctx.eq('d(T*H/RT)/dT = Cp/R', ctx.deriv(lambda t: t * _first(get_nasa9_HoRT(a=A, T=t)), T), Cp, info='deriv')
    ctx.eq('dS/dT = Cp/(RT)', ctx.deriv(lambda t: _first(get_nasa9_SoR(a=A, T=t)), T), Cp / T, info='deriv')
    rCp, rH, rS = nasa9_ref(a, T, log(ctx, T))
    ctx.eq('Cp = textbook', Cp, rCp)
    ctx.eq('H = textbook', H, rH)
    ctx.eq('S = textbook', S, rS)


def h_shomate_eval(ctx, units):
    from pmutt.empirical.shomate import get_shomate_CpoR, get_shomate_HoRT, get_shomate_SoR, get_shomate_GoRT
    from pmutt import constants as c
    a = _coeffs(ctx, 'a', 8)
    A = np_array(ctx, a)
    T = ctx.real('T', 50, 6000)

    def arr(t):
        return np_array(ctx, [t])
    Cp = _first(get_shomate_CpoR(a=A, T=arr(T), units=units))
    H = _first(get_shomate_HoRT(a=A, T=arr(T), units=units))
    S = _first(get_shomate_SoR(a=A, T=arr(T), units=units))
    G = _first(get_shomate_GoRT(a=A, T=arr(T), units=units))
    ctx.eq('d(T*H/RT)/dT = Cp/R', ctx.deriv(lambda t: t * _first(get_shomate_HoRT(a=A, T=arr(t), units=units)), T), Cp, info='deriv')
    ctx.eq('dS/dT = Cp/(RT)', ctx.deriv(lambda t: _first(get_shomate_SoR(a=A, T=arr(t), units=units)), T), Cp / T, info='deriv')
    ctx.eq('G = H - S', G, H - S)
    R = c.R(units)
    rCp, rH, rS = shomate_ref(a, T, log(ctx, T / 1000), R)
    ctx.eq('Cp = textbook', Cp, rCp)
    ctx.eq('H = textbook', H, rH)
    ctx.eq('S = textbook', S, rS)


# --- objects --------------------------------------------------------------------------------
def _nasa7(ctx):
    from pmutt.empirical.nasa import Nasa
    al = _coeffs(ctx, 'al', 7)
    ah = _coeffs(ctx, 'ah', 7)
    Tl = ctx.real('T_low', 50, 6000)
    Tm = ctx.real('T_mid', 50, 6000)
    Th = ctx.real('T_high', 50, 6000)
    ctx.assume(Tl < Tm)
    ctx.assume(Tm < Th)
    sp = Nasa(name='sp', T_low=Tl, T_mid=Tm, T_high=Th, a_low=al, a_high=ah)
    return sp, al, ah, Tl, Tm, Th


def h_nasa7_obj(ctx, region):
    """public scalar getters pick the segment whose bounds contain T (upper one at T_mid)"""
    sp, al, ah, Tl, Tm, Th = _nasa7(ctx)
    T = ctx.real('T', 50, 6000)
    ctx.assume(Tl <= T)
    ctx.assume(T <= Th)
    if region == 'below':
        ctx.assume(T < Tm)
        a = al
    elif region == 'at':
        ctx.assume(T == Tm)
        a = ah
    else:
        ctx.assume(T > Tm)
        a = ah
    rCp, rH, rS = nasa7_ref(a, T, log(ctx, T))
    Cp, H, S, G = sp.get_CpoR(T=T), sp.get_HoRT(T=T), sp.get_SoR(T=T), sp.get_GoRT(T=T)
    ctx.eq('CpoR uses containing segment', Cp, rCp)
    ctx.eq('HoRT uses containing segment', H, rH)
    ctx.eq('SoR uses containing segment', S, rS)
    ctx.eq('GoRT = HoRT - SoR', G, H - S)
    ctx.eq('d(T*HoRT)/dT = CpoR (public getters)', ctx.deriv(lambda t: t * sp.get_HoRT(T=t), T), Cp, info='deriv')
    ctx.eq('dSoR/dT = CpoR/T (public getters)', ctx.deriv(lambda t: sp.get_SoR(T=t), T), Cp / T, info='deriv')


def h_nasa7_arr(ctx, n, kind, ints=False):
    """array evaluation == per-element scalar evaluation (elements may straddle T_mid)"""
    sp, al, ah, Tl, Tm, Th = _nasa7(ctx)
    Ts = []
    for i in range(n):
        t = ctx.int('T%d' % i, 50, 6000) if ints else ctx.real('T%d' % i, 50, 6000)
        ctx.assume(Tl <= t)
        ctx.assume(t <= Th)
        Ts.append(t)
    arr = np_array(ctx, Ts) if kind == 'ndarray' else list(Ts)
    for m in ('get_CpoR', 'get_HoRT', 'get_SoR', 'get_GoRT'):
        va = getattr(sp, m)(T=arr)
        ctx.true('%s array has one entry per temperature' % m, len(va) == n)
        for i in range(n):
            ctx.eq('%s[%d] array == scalar' % (m, i), va[i], getattr(sp, m)(T=Ts[i]))


def _nasa9(ctx, nseg, contiguous):
    from pmutt.empirical.nasa import Nasa9, SingleNasa9
    segs = []
    if contiguous:
        Tb = [ctx.real('Tb%d' % i, 50, 6000) for i in range(nseg + 1)]
        for i in range(nseg):
            ctx.assume(Tb[i] < Tb[i + 1])
        bounds = [(Tb[i], Tb[i + 1]) for i in range(nseg)]
    else:
        bounds = []
        for i in range(nseg):
            lo = ctx.real('lo%d' % i, 50, 6000)
            hi = ctx.real('hi%d' % i, 50, 6000)
            ctx.assume(lo < hi)
            bounds.append((lo, hi))
    coeffs = []
    for i, (lo, hi) in enumerate(bounds):
        a = _coeffs(ctx, 's%d_a' % i, 9)
        coeffs.append(a)
        segs.append(SingleNasa9(T_low=lo, T_high=hi, a=np_array(ctx, a)))
    sp = Nasa9(name='sp', nasas=segs)
    return sp, segs, bounds, coeffs


def h_nasa9_select(ctx, nseg):
    """_get_nasa: the returned segment contains T; T outside every segment is refused.
    Segment bounds are arbitrary (unordered, overlapping or with holes)."""
    sp, segs, bounds, coeffs = _nasa9(ctx, nseg, contiguous=False)
    T = ctx.real('T', 50, 6000)
    try:
        seg = sp._get_nasa(T)
    except ValueError:
        for i, (lo, hi) in enumerate(bounds):
            ctx.true('refused only when T outside segment %d' % i, (T < lo) | (T > hi))
        return
    ctx.true('selected segment contains T', (seg.T_low <= T) & (T <= seg.T_high))


def h_nasa9_obj(ctx, nseg):
    """public scalar getters == textbook NASA-9 of a segment containing T (contiguous segments)"""
    sp, segs, bounds, coeffs = _nasa9(ctx, nseg, contiguous=True)
    T = ctx.real('T', 50, 6000)
    ctx.assume(bounds[0][0] <= T)
    ctx.assume(T <= bounds[-1][1])
    k = None
    for i, (lo, hi) in enumerate(bounds):      # first segment containing T (fork)
        if (lo <= T) & (T <= hi):
            k = i
            break
    if k is None:
        # cannot happen for contiguous bounds
        ctx.fail('T inside the global range lies in some segment')
        return
    rCp, rH, rS = nasa9_ref(coeffs[k], T, log(ctx, T))
    Cp, H, S, G = _first(sp.get_CpoR(T=T)), _first(sp.get_HoRT(T=T)), _first(sp.get_SoR(T=T)), _first(sp.get_GoRT(T=T))
    ctx.eq('CpoR uses containing segment', Cp, rCp)
    ctx.eq('HoRT uses containing segment', H, rH)
    ctx.eq('SoR uses containing segment', S, rS)
    ctx.eq('GoRT = HoRT - SoR', G, H - S)


def h_nasa9_outside(ctx, nseg):
    sp, segs, bounds, coeffs = _nasa9(ctx, nseg, contiguous=True)
    T = ctx.real('T', 1, 20000)
    ctx.assume((T < bounds[0][0]) | (T > bounds[-1][1]))
    for m in ('get_CpoR', 'get_HoRT', 'get_SoR', 'get_GoRT'):
        try:
            getattr(sp, m)(T=T)
        except ValueError:
            ctx.true('%s refuses T outside every segment' % m, True)
        else:
            ctx.fail('%s refuses T outside every segment' % m)


def h_nasa9_arr(ctx, nseg, n, method):
    sp, segs, bounds, coeffs = _nasa9(ctx, nseg, contiguous=True)
    Ts = []
    for i in range(n):
        t = ctx.real('T%d' % i, 50, 6000)
        ctx.assume(bounds[0][0] <= t)
        ctx.assume(t <= bounds[-1][1])
        Ts.append(t)
    va = getattr(sp, method)(T=np_array(ctx, Ts))
    if n == 1:
        ctx.eq('%s 1-element array == scalar' % method, _first(va), _first(getattr(sp, method)(T=Ts[0])))
        return
    ctx.true('%s array has one entry per temperature' % method, len(va) == n)
    for i in range(n):
        ctx.eq('%s[%d] array == scalar' % (method, i), va[i], _first(getattr(sp, method)(T=Ts[i])))


def _shomate(ctx, units):
    from pmutt.empirical.shomate import Shomate
    a = _coeffs(ctx, 'a', 8)
    Tl = ctx.real('T_low', 50, 6000)
    Th = ctx.real('T_high', 50, 6000)
    ctx.assume(Tl < Th)
    sp = Shomate(name='sp', T_low=Tl, T_high=Th, a=np_array(ctx, a), units=units)
    return sp, a, Tl, Th


def h_shomate_obj(ctx, units):
    from pmutt import constants as c
    sp, a, Tl, Th = _shomate(ctx, units)
    T = ctx.real('T', 50, 6000)
    ctx.assume(Tl <= T)
    ctx.assume(T <= Th)
    R = c.R(units)
    rCp, rH, rS = shomate_ref(a, T, log(ctx, T / 1000), R)
    Cp, H, S, G = sp.get_CpoR(T=T), sp.get_HoRT(T=T), sp.get_SoR(T=T), sp.get_GoRT(T=T)
    ctx.eq('CpoR = textbook', Cp, rCp)
    ctx.eq('HoRT = textbook', H, rH)
    ctx.eq('SoR = textbook', S, rS)
    ctx.eq('GoRT = HoRT - SoR', G, H - S)
    ctx.eq('d(T*HoRT)/dT = CpoR (public getters)', ctx.deriv(lambda t: t * sp.get_HoRT(T=t), T), Cp, info='deriv')
    ctx.eq('dSoR/dT = CpoR/T (public getters)', ctx.deriv(lambda t: sp.get_SoR(T=t), T), Cp / T, info='deriv')


def h_shomate_arr(ctx, units, n):
    sp, a, Tl, Th = _shomate(ctx, units)
    Ts = []
    for i in range(n):
        t = ctx.real('T%d' % i, 50, 6000)
        ctx.assume(Tl <= t)
        ctx.assume(t <= Th)
        Ts.append(t)
    for m in ('get_CpoR', 'get_HoRT', 'get_SoR', 'get_GoRT'):
        va = getattr(sp, m)(T=np_array(ctx, Ts))
        if n == 1:
            ctx.eq('%s 1-element array == scalar' % m, _first(va), getattr(sp, m)(T=Ts[0]))
            continue
        ctx.true('%s array has one entry per temperature' % m, len(va) == n)
        for i in range(n):
            ctx.eq('%s[%d] array == scalar' % (m, i), va[i], getattr(sp, m)(T=Ts[i]))


SHOMATE_UNITS = ['J/mol/K', 'kJ/mol/K', 'cal/mol/K', 'kcal/mol/K', 'eV/K']


def groups(tier):
    th = tier == 'thorough'
    g = [dict(name='nasa7/evaluators', harness=h_nasa7_eval),
         dict(name='nasa9/evaluators', harness=h_nasa9_eval)]
    for u in SHOMATE_UNITS:
        g.append(dict(name='shomate/evaluators/%s' % u, harness=h_shomate_eval, params=dict(units=u)))
        g.append(dict(name='shomate/object/%s' % u, harness=h_shomate_obj, params=dict(units=u)))
    for n in ((1, 2, 3) if th else (1, 2)):
        g.append(dict(name='shomate/array%d' % n, harness=h_shomate_arr, params=dict(units='kJ/mol/K' if n % 2 else 'J/mol/K', n=n)))
    for r in ('below', 'at', 'above'):
        g.append(dict(name='nasa7/object/T-%s-T_mid' % r, harness=h_nasa7_obj, params=dict(region=r)))
    for n in ((1, 2, 3) if th else (1, 2)):
        for kind in ('ndarray', 'list'):
            g.append(dict(name='nasa7/array%d/%s' % (n, kind), harness=h_nasa7_arr, params=dict(n=n, kind=kind)))
            if n == 1 or th:
                g.append(dict(name='nasa7/array%d/%s/int-temperatures' % (n, kind), harness=h_nasa7_arr,
                              params=dict(n=n, kind=kind, ints=True)))
    for ns in ((1, 2, 3, 4) if th else (1, 2, 3)):
        g.append(dict(name='nasa9/select/%dseg' % ns, harness=h_nasa9_select, params=dict(nseg=ns)))
        g.append(dict(name='nasa9/object/%dseg' % ns, harness=h_nasa9_obj, params=dict(nseg=ns)))
        g.append(dict(name='nasa9/outside/%dseg' % ns, harness=h_nasa9_outside, params=dict(nseg=ns)))
    for ns, n in (((1, 1), (2, 2), (3, 2), (2, 3), (4, 3)) if th else ((1, 1), (2, 2))):
        for m in ('get_CpoR', 'get_HoRT', 'get_SoR', 'get_GoRT'):
            g.append(dict(name='nasa9/array/%dseg/%dT/%s' % (ns, n, m), harness=h_nasa9_arr, params=dict(nseg=ns, n=n, method=m)))
    return g
