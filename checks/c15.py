"""C15  The spreadsheet reader maps rows and special columns as documented."""
from checks.common import *

USES_STRINGS = True

META = dict(
    functions=['pmutt.io.excel.read_excel', 'set_element', 'set_formula', 'set_statmech_model', 'set_trans_model/vib/rot/elec/nucl_model',
               'set_vib_wavenumbers', 'set_rot_temperatures', 'set_nasa_a_low/a_high', 'set_list_value', 'set_dict_value',
               'pmutt.statmech.presets'],
    bounds=dict(quick='worksheets of 1-2 data rows x 3-6 columns; every cell symbolically empty or not (all patterns); ordinary headers of 4 symbolic '
                      'upper-case letters with surrounding blanks; element.X with X of 1-2 symbolic letters; vib_wavenumber / rot_temperature '
                      'repeated 1-3 times (pandas .N suffixes); list.name(.i) (names foo/bar and T1/T2), dict.name.key, nasa.a_low.i / a_high.i for every i; numeric cells '
                      'symbolic reals, string cells symbolic with surrounding blanks; every preset and every per-mode model class name'),
    outside_claim=['pandas / openpyxl parsing of the workbook, duplicate-header mangling, sheet names, ASE atoms columns, '
                   'vib_outcar columns', 'ordinary headers containing a special keyword (ambiguous by the documentation)', 'more than 2 rows '
                   '(thermo_data is rebuilt per row)'],
    stubs=['pandas.read_excel: a frame whose iterrows() yields the rows; an empty cell is NaN; in the comment-row group it drops the physical '
           'rows listed in skiprows (header row = 0), as pandas documents'],
    assumptions=['ordinary headers are upper-case (cannot contain the lower-case special keywords)'],
)

UPPER = [(65, 90)]
LOWER = [(97, 122)]


class Row:
    def __init__(self, cells):
        self.cells = cells          # list of (header, value, empty flag)

    def items(self):
        for (h, v, empty) in self.cells:
            if empty is True or (empty is not False and bool(empty)):
                yield (h, float('nan'))
            else:
                yield (h, v)


class Frame:
    """the part of a pandas DataFrame read_excel relies on; anything else is refused (harness error), not guessed"""
    def __init__(self, rows, index=None):
        self.rows = rows
        self.index = list(range(len(rows))) if index is None else index

    def iterrows(self):
        for i, r in zip(self.index, self.rows):
            yield (i, r)

    def __len__(self):
        return len(self.rows)

    def dropna(self, axis=0, how='any', **kw):
        from symx.proxy import Escape
        if axis not in (0, 'index') or kw:
            raise Escape('frame stub: dropna(%r, %r) not modelled' % (axis, kw))
        keep, idx = [], []
        for i, r in zip(self.index, self.rows):
            flags = [e if isinstance(e, bool) else bool(e) for (_, _, e) in r.cells]
            if not (all(flags) if how == 'all' else any(flags)):
                keep.append(r)
                idx.append(i)
        return Frame(keep, idx)

    def __getattr__(self, name):
        from symx.proxy import Escape
        raise Escape('frame stub: DataFrame.%s is not modelled' % name)


def _read(ctx, rows, comment_row=None, **call_kw):
    """comment_row: None = the sheet is modelled from its data rows on (the default skiprows handling is not in play);
    True / False = the sheet has / has not a comment row under the header row, and pandas.read_excel drops the physical rows
    whose index (header row = 0) the caller lists in skiprows, as documented"""
    import pmutt.io.excel as ex
    saved = ex.pd.read_excel

    def read_excel(io=None, skiprows=None, header=0, **kw):
        if comment_row is None:
            return Frame([Row(r) for r in rows])
        physical = ([[('__comment__', 'units / comments', False)]] if comment_row else []) + list(rows)
        skip = set(skiprows) if skiprows is not None and not isinstance(skiprows, int) else (set(range(1, skiprows + 1)) if skiprows else set())
        keep = [r for k, r in enumerate(physical) if (k + 1) not in skip]
        return Frame([Row(r) for r in keep])
    ex.pd.read_excel = read_excel
    try:
        return ex.read_excel(io='dir/book.xlsx', **call_kw)
    finally:
        ex.pd.read_excel = saved


def h_comment_row(ctx):
    """sheets with and without the comment row under the header: every data row gives a record, the comment row never does"""
    v0, v1 = ctx.real('v0', -1e3, 1e3), ctx.real('v1', -1e3, 1e3)
    rows = [[('name', 'first', False), ('value', v0, False)], [('name', 'second', False), ('value', v1, False)]]

    def ok(recs):
        return len(recs) == 2 and recs[0].get('name') == 'first' and recs[1].get('name') == 'second'
    recs = _read(ctx, rows, comment_row=True)
    ctx.true('comment row present, default call: two records, the comment row is not one of them', ok(recs))
    if ok(recs):
        ctx.eq('comment row present: value of row 0', recs[0]['value'], v0)
        ctx.eq('comment row present: value of row 1', recs[1]['value'], v1)
    for sk in ([], None):
        recs = _read(ctx, rows, comment_row=False, skiprows=sk)
        ctx.true('no comment row, skiprows=%r: every data row gives a record (the first one is not dropped)' % (sk,), ok(recs))
        if ok(recs):
            ctx.eq('no comment row, skiprows=%r: value of row 0' % (sk,), recs[0]['value'], v0)
    recs = _read(ctx, rows, comment_row=True, skiprows=[1])
    ctx.true('comment row present, skiprows=[1] given explicitly: two records', ok(recs))


def _present(ctx, tag):
    return ctx.bool('empty:' + tag)


def _value(ctx, tag, kind):
    if kind == 'num':
        return ctx.real('val:' + tag, -1e3, 1e3), None
    core = [ctx.char('str:%s.%d' % (tag, i), UPPER) for i in range(3)]
    return ctx.string([' '] + core + [' ']), ctx.string(core)


def _find(ctx, rec, key):
    """value stored under `key` (str or symbolic) in a record, or None"""
    hits = [v for k, v in rec.items() if (k == key if isinstance(k, str) and isinstance(key, str) else bool(k == key))]
    return hits


def _same(ctx, label, got, want):
    if ctx.is_sym():
        from symx.proxy import Sym
        from symx.symstr import SymStr
        if isinstance(want, Sym) or isinstance(got, Sym):
            ctx.eq(label, got, want)
        elif isinstance(want, SymStr) or isinstance(got, SymStr):
            ctx.true(label, got == want)
        else:
            ctx.true(label, got == want)
    else:
        if isinstance(want, float):
            ctx.eq(label, got, want)
        else:
            ctx.true(label, got == want)


def h_basic(ctx, nrows, nvib, cols=None):
    """ordinary columns, element.X, repeated vib_wavenumber / rot_temperature"""
    rows, expect = [], []
    for r in range(nrows):
        cells = []
        exp = dict(plain={}, elements={}, vib=[], rot=[])
        hname = [ctx.char('h%d' % i, UPPER) for i in range(4)]
        e1 = [ctx.char('el.u', UPPER), ctx.char('el.l', LOWER)]
        full = [('plainN', ctx.string([' '] + hname + [' ']), 'num'), ('plainS', 'phase ', 'str'), ('el1', ctx.string(list('element.') + e1), 'num'),
                ('el2', 'element.O', 'num')]
        full += [('vib%d' % k, 'vib_wavenumber' + ('.%d' % k if k else ''), 'num') for k in range(nvib)]
        full += [('rot%d' % k, 'rot_temperature' + ('.%d' % k if k else ''), 'num') for k in range(2)]
        specs = [x for x in full if x[0] in cols] if cols else full
        for (tag, header, kind) in specs:
            t = 'r%d.%s' % (r, tag)
            v, stripped = _value(ctx, t, kind)
            empty = _present(ctx, t)
            cells.append((header, v, empty))
            if not bool(empty):
                val = stripped if kind == 'str' else v
                if tag == 'plainN':
                    exp['plain'][ctx.string(hname)] = val
                elif tag == 'plainS':
                    exp['plain']['phase'] = val
                elif tag == 'el1':
                    exp['elements'][ctx.string(e1)] = val
                elif tag == 'el2':
                    exp['elements']['O'] = val
                elif tag.startswith('vib'):
                    exp['vib'].append(val)
                else:
                    exp['rot'].append(val)
        rows.append(cells)
        expect.append(exp)
    recs = _read(ctx, rows)
    ctx.true('one record per data row', len(recs) == nrows)
    if len(recs) != nrows:
        return
    for r, (rec, exp) in enumerate(zip(recs, expect)):
        tag = 'row %d: ' % r
        nkeys = len(exp['plain']) + (1 if exp['elements'] else 0) + (1 if exp['vib'] else 0) + (1 if exp['rot'] else 0)
        ctx.true(tag + 'record holds exactly the non-empty cells (no empty cells, nothing from other rows)', len(rec) == nkeys)
        for k, v in exp['plain'].items():
            hit = _find(ctx, rec, k)
            ctx.true(tag + 'ordinary column present under its trimmed header', len(hit) == 1)
            if len(hit) == 1:
                _same(ctx, tag + 'ordinary column value (strings trimmed)', hit[0], v)
        if exp['elements']:
            els = rec.get('elements')
            ctx.true(tag + 'composition dictionary built', isinstance(els, dict) and len(els) == len(exp['elements']))
            if isinstance(els, dict):
                for k, v in exp['elements'].items():
                    hit = _find(ctx, els, k)
                    ctx.true(tag + 'element.X stored under X', len(hit) == 1)
                    if len(hit) == 1:
                        _same(ctx, tag + 'element count', hit[0], v)
        else:
            ctx.true(tag + 'no composition when all element cells are empty', 'elements' not in rec)
        for key, name in (('vib', 'vib_wavenumbers'), ('rot', 'rot_temperatures')):
            if exp[key]:
                got = rec.get(name)
                ctx.true(tag + '%s list holds the non-empty cells' % name, isinstance(got, list) and len(got) == len(exp[key]))
                if isinstance(got, list) and len(got) == len(exp[key]):
                    for i, v in enumerate(exp[key]):
                        _same(ctx, tag + '%s[%d] in column order' % (name, i), got[i], v)
            else:
                ctx.true(tag + 'no %s when all its cells are empty' % name, name not in rec)


def h_listdict(ctx, nrows, foo='foo', bar='bar'):
    """foo / bar: the names of the two list fields (also names that end in a digit, which must not be taken for the index)"""
    rows, expect = [], []
    for r in range(nrows):
        cells, exp = [], dict(lst=[], dct={}, lst2=[])
        specs = [('l0', 'list.%s' % foo, 'lst', None), ('l1', 'list.%s.1' % foo, 'lst', None), ('l2', ' list.%s.2' % foo, 'lst', None),
                 ('m0', 'list.%s.0' % bar, 'lst2', None),
                 ('d0', 'dict.baz.alpha', 'dct', 'alpha'), ('d1', 'dict.baz.beta ', 'dct', 'beta')]
        if nrows > 1:
            specs = [specs[0], specs[1], specs[4]]
        for (tag, header, where, key) in specs:
            t = 'r%d.%s' % (r, tag)
            v, _ = _value(ctx, t, 'num')
            empty = _present(ctx, t)
            cells.append((header, v, empty))
            if not bool(empty):
                if where == 'dct':
                    exp['dct'][key] = v
                else:
                    exp[where].append(v)
        rows.append(cells)
        expect.append(exp)
    recs = _read(ctx, rows)
    ctx.true('one record per data row', len(recs) == nrows)
    if len(recs) != nrows:
        return
    for r, (rec, exp) in enumerate(zip(recs, expect)):
        tag = 'row %d: ' % r
        ctx.true(tag + 'record holds exactly the non-empty fields', len(rec) == (1 if exp['lst'] else 0) + (1 if exp['lst2'] else 0) + (1 if exp['dct'] else 0))
        for name, key in ((foo, 'lst'), (bar, 'lst2')):
            if exp[key]:
                got = rec.get(name)
                ctx.true(tag + 'list.%s collected' % name, isinstance(got, list) and len(got) == len(exp[key]))
                if isinstance(got, list) and len(got) == len(exp[key]):
                    for i, v in enumerate(exp[key]):
                        ctx.eq(tag + 'list.%s[%d] in column order' % (name, i), got[i], v)
        if exp['dct']:
            got = rec.get('baz')
            ctx.true(tag + 'dict.baz collected', isinstance(got, dict) and set(got) == set(exp['dct']))
            if isinstance(got, dict) and set(got) == set(exp['dct']):
                for k, v in exp['dct'].items():
                    ctx.eq(tag + 'dict.baz[%s]' % k, got[k], v)


def h_nasa(ctx, which):
    cells, exp = [], {}
    for i in range(7):
        t = '%s%d' % (which, i)
        v, _ = _value(ctx, t, 'num')
        empty = _present(ctx, t)
        cells.append(('nasa.%s.%d' % (which, i), v, empty))
        if not bool(empty):
            exp[i] = v
    recs = _read(ctx, [cells])
    rec = recs[0]
    if exp:
        arr = rec.get(which)
        ctx.true('coefficient array of length 7', arr is not None and len(arr) == 7)
        if arr is not None and len(arr) == 7:
            for i in range(7):
                ctx.eq('nasa.%s.%d lands at index %d (empty cells stay 0)' % (which, i, i), arr[i], exp.get(i, 0.0))
    else:
        ctx.true('no array when every coefficient cell is empty', which not in rec)
    ctx.true('nothing else in the record', len(rec) == (1 if exp else 0))


def h_models(ctx):
    """model-name cells: every preset and every per-mode class name maps to the documented class"""
    from pmutt.statmech import StatMech, EmptyMode, presets, trans, vib, rot, elec, nucl, lsr
    import inspect
    for name in presets:
        rec = _read(ctx, [[('statmech_model', ' %s ' % name, False), ('name', 'x', False)]])[0]
        ok = rec.get('model') is StatMech and all(rec.get(k) == v for k, v in presets[name].items())
        ctx.true('preset %s fills the record' % name, ok and rec.get('name') == 'x')
    rec = _read(ctx, [[('trans_model', 'FreeTrans', False), ('statmech_model', 'idealgas', False), ('n_degrees', 2, False)]])[0]
    ctx.true('an explicit column wins over the preset', rec.get('trans_model') is trans.FreeTrans and rec.get('n_degrees') == 2)
    # ... also when it stands to the left of the preset column and differs from what the preset would fill in
    rec = _read(ctx, [[('vib_model', 'EinsteinVib', False), ('n_degrees', 2, False), ('statmech_model', 'idealgas', False),
                       ('rot_model', 'EmptyMode', False)]])[0]
    ctx.true('explicit columns left and right of the preset column win over the preset',
             rec.get('vib_model') is vib.EinsteinVib and rec.get('n_degrees') == 2 and rec.get('rot_model') is EmptyMode
             and rec.get('trans_model') is presets['idealgas']['trans_model'] and rec.get('elec_model') is presets['idealgas']['elec_model'])
    table = [('trans_model', trans), ('vib_model', vib), ('rot_model', rot), ('elec_model', elec), ('nucl_model', nucl)]
    for col, mod in table:
        for cname, cls in inspect.getmembers(mod, inspect.isclass):
            if cls.__module__ != mod.__name__:
                continue
            try:
                rec = _read(ctx, [[(col, cname, False)]])[0]
            except ValueError:
                ctx.fail('%s = %s accepted' % (col, cname))
                continue
            ctx.true('%s = %s accepted' % (col, cname), rec.get(col) is cls and rec.get('model') is StatMech)
        rec = _read(ctx, [[(col, 'EmptyMode', False)]])[0]
        ctx.true('%s = EmptyMode accepted' % col, rec.get(col) is EmptyMode)
        try:
            _read(ctx, [[(col, 'NoSuchModel', False)]])
        except ValueError:
            ctx.true('%s: unknown model name refused' % col, True)
        else:
            ctx.fail('%s: unknown model name refused' % col)
    rec = _read(ctx, [[('elec_model', 'LSR', False)]])[0]
    ctx.true('elec_model = LSR accepted', rec.get('elec_model') is lsr.LSR)
    try:
        _read(ctx, [[('statmech_model', 'nonsense', False)]])
    except ValueError:
        ctx.true('unknown preset refused', True)
    else:
        ctx.fail('unknown preset refused')


def h_formula(ctx):
    rec = _read(ctx, [[('formula', 'CH3CH2OH', False), ('name', 'EtOH', False)], [('formula', 'x', True), ('name', 'none', False)]])
    ctx.true('formula builds the composition', rec[0].get('elements') == {'C': 2, 'H': 6, 'O': 1} and rec[0].get('name') == 'EtOH')
    ctx.true('no composition leaks into the next row', 'elements' not in rec[1] and rec[1] == {'name': 'none'})
    rec = _read(ctx, [[('formula', 'H2O', False), ('element.H', 3, False)], [('formula', 'H2O', False), ('element.H', 0, True)]])
    ctx.true('element.X after formula overrides in its own row only', rec[0]['elements'] == {'H': 3, 'O': 1} and rec[1]['elements'] == {'H': 2, 'O': 1})
    rec = _read(ctx, [[('spin', 0, False), ('element.C', 0, False), ('list.z', 0.0, False)]])
    ctx.true('cells equal to zero are not empty', rec[0] == {'spin': 0, 'elements': {'C': 0}, 'z': [0.0]})
    cells = [('list.v' + ('.%d' % i if i else ''), float(i), False) for i in range(13)]
    rec = _read(ctx, [cells])
    ctx.true('lists longer than ten columns stay one list in order', rec[0] == {'v': [float(i) for i in range(13)]})


def groups(tier):
    th = tier == 'thorough'
    g = []
    sets = [('plain+element', ['plainN', 'plainS', 'el1', 'el2']), ('vib+rot', ['plainS', 'vib0', 'vib1', 'vib2', 'rot0', 'rot1']),
            ('mixed', ['plainN', 'el1', 'vib0', 'vib1', 'rot0'])]
    for nm, cols in sets:
        g.append(dict(name='basic/1row/%s' % nm, harness=h_basic, params=dict(nrows=1, nvib=3, cols=cols), no_validate=True, max_paths=20000,
                      budget_s=1500))
    g.append(dict(name='basic/2rows/plain+element+vib', harness=h_basic, params=dict(nrows=2, nvib=1, cols=['plainN', 'el1', 'vib0']),
                  no_validate=True, max_paths=20000, budget_s=1500))
    if th:
        g.append(dict(name='basic/2rows/vib+rot', harness=h_basic, params=dict(nrows=2, nvib=2, cols=['plainS', 'vib0', 'vib1', 'rot0']),
                      no_validate=True, max_paths=20000, budget_s=3000))
        g.append(dict(name='basic/1row/all', harness=h_basic, params=dict(nrows=1, nvib=2), no_validate=True, max_paths=20000, budget_s=3000))
    g.append(dict(name='list-dict/1row', harness=h_listdict, params=dict(nrows=1), no_validate=True, max_paths=20000))
    g.append(dict(name='list-dict/1row/names-ending-in-a-digit', harness=h_listdict, params=dict(nrows=1, foo='T1', bar='T2'), no_validate=True,
                  max_paths=20000))
    if th:
        g.append(dict(name='list-dict/2rows', harness=h_listdict, params=dict(nrows=2), no_validate=True, max_paths=20000, budget_s=3000))
    for which in ('a_low', 'a_high'):
        g.append(dict(name='nasa/%s' % which, harness=h_nasa, params=dict(which=which), no_validate=True, max_paths=1000))
    g.append(dict(name='model-names', harness=h_models, no_validate=True))
    g.append(dict(name='comment-row', harness=h_comment_row, no_validate=True))
    g.append(dict(name='formula+zero-cells+long-lists', harness=h_formula, no_validate=True))
    return g
