"""C05  Thermdat files written by pMuTT read back to the same species."""
import os
from checks.common import *

USES_STRINGS = True

META = dict(
    functions=['pmutt.io.thermdat.write_thermdat/_write_line1.._write_line4/_insert_space',
               'pmutt.io.thermdat.read_thermdat/_get_fields/_is_temperature_header/_read_line_num/_read_line1.._read_line4'],
    bounds=dict(quick='1-2 species; names of 1-6 and of 15 symbolic characters (upper-case letters; one group with a leading digit / punctuation), 0-4 elements '
                      'with 1-2 symbolic letters, counts symbolic per digit class (1-9, 10-99, 100-999, and zero), symbolic phase character, '
                      'temperatures symbolic per digit class in [1, 9999.9], the 14 coefficients symbolic reals (two-digit exponent range or 0), '
                      'date on / notes, list / tuple / dict read formats',
                thorough='names of 8, 10, 12, 14 and 15 characters, 3 species'),
    outside_claim=['that a printed decimal has the stated number of correct digits (CPython formatter; a coefficient is identified by the token '
                   '(spec, value) the writer produced, temperatures by value with the 0.05 contract of %.1f)', '200 species (the per-species loop '
                   'carries only nasa_data, exercised by the 2-3 species runs)', 'supplementary data / comment blocks beyond literal text',
                   'names containing lower-case letters or blanks'],
    stubs=['open() on mem:// paths: in-memory text file', 'datetime.now: whatever the real clock says (8 characters)'],
    assumptions=['two-digit exponents: 1e-30 <= |coefficient| <= 1e30 or 0 (15-character field of {: 2.8E})'],
)

UPPER = [(65, 90)]
NAMECH = [(48, 57), (65, 90), (40, 41), (45, 45), (43, 43)]       # digits, A-Z, ( ) - +
LOWER = [(97, 122)]


def _species(ctx, tag, namelen, first, elems, notes, signs='pos'):
    """elems: list of (symbol length, count class) with class in 0, 1, 2, 3 digits"""
    from pmutt.empirical.nasa import Nasa
    name = [ctx.char('%s.n0' % tag, NAMECH if first == 'any' else UPPER)] + [ctx.char('%s.n%d' % (tag, i), UPPER) for i in range(1, namelen)]
    elements = {}
    edesc = []
    for k, (sl, cls) in enumerate(elems):
        sym = [ctx.char('%s.e%d.u' % (tag, k), UPPER)] + [ctx.char('%s.e%d.l' % (tag, k), LOWER) for _ in range(sl - 1)]
        lo, hi = {0: (0, 0), 1: (1, 9), 2: (10, 99), 3: (100, 999)}[cls]
        cnt = ctx.int('%s.e%d.count' % (tag, k), lo, hi) if cls else 0
        key = ctx.string(sym)
        elements[key] = cnt
        edesc.append((key, cnt, cls))
    # distinct element symbols (a dict cannot hold a symbol twice)
    keys = [k for k, _, _ in edesc]
    for i in range(len(keys)):
        for j in range(i + 1, len(keys)):
            ctx.assume(keys[i] != keys[j])
    phase = ctx.char('%s.phase' % tag, [(65, 90), (97, 122)])        # 'G', 'S', 'g', 's', ... any letter, either case
    Tl = ctx.real('%s.T_low' % tag, 100, 999.9)
    Tm = ctx.real('%s.T_mid' % tag, 1000, 2500)
    Th = ctx.real('%s.T_high' % tag, 2600, 9999.9)
    al = [ctx.real('%s.al%d' % (tag, i), -1e6, 1e6) for i in range(7)]
    ah = [ctx.real('%s.ah%d' % (tag, i), -1e6, 1e6) for i in range(7)]
    # the sign pattern of the 14 coefficients is a configuration (each sign changes how the fixed-column text splits)
    for i, v in enumerate(al + ah):
        s_ = {'pos': 1, 'neg': -1, 'alt': 1 if i % 2 else -1, 'mix': 1 if (i * 7 + 3) % 5 < 2 else -1, 'zero': 0 if i % 3 == 0 else 1}[signs]
        if s_ > 0:
            ctx.assume(v >= 1e-30)
        elif s_ < 0:
            ctx.assume(v <= -1e-30)
        else:
            ctx.assume(v == 0)
    sp = Nasa(name=ctx.string(name), elements=elements, phase=ctx.string([phase]), T_low=Tl, T_mid=Tm, T_high=Th,
              a_low=np_array(ctx, al), a_high=np_array(ctx, ah), notes=notes)
    return sp, dict(name=ctx.string(name), elements=edesc, phase=ctx.string([phase]), T=(Tl, Tm, Th), al=al, ah=ah)


def _roundtrip(ctx, species, fmt, write_date):
    from pmutt.io.thermdat import write_thermdat, read_thermdat
    text = write_thermdat(species, filename=None, write_date=write_date)
    if ctx.is_sym():
        from symx import symstr
        symstr.VFS['mem://c05.thermdat'] = text
        return text, read_thermdat('mem://c05.thermdat', format=fmt)
    import tempfile
    fd, path = tempfile.mkstemp(suffix='.thermdat')
    os.close(fd)
    try:
        with open(path, 'w') as f:
            f.write(text)
        return text, read_thermdat(path, format=fmt)
    finally:
        os.remove(path)


def _check_species(ctx, got, want, tag):
    ctx.true(tag + 'name read back', got.name == want['name'])
    ctx.true(tag + 'phase read back', got.phase == want['phase'])
    nz = [(k, c) for k, c, cls in want['elements'] if cls]
    ctx.true(tag + 'same number of elements (zero counts omitted)', len(got.elements) == len(nz))
    for (k, c) in nz:
        hit = [v for kk, v in got.elements.items() if bool(kk == k)]
        ctx.true(tag + 'element present once', len(hit) == 1)
        if len(hit) == 1:
            ctx.eq(tag + 'element count read back', hit[0], c)
    Tl, Tm, Th = want['T']
    ctx.eq(tag + 'T_low within 0.1 K', got.T_low, Tl, tol=0.051)
    ctx.eq(tag + 'T_mid within 0.1 K', got.T_mid, Tm, tol=0.051)
    ctx.eq(tag + 'T_high within 0.1 K', got.T_high, Th, tol=0.051)
    for i in range(7):
        ctx.eq(tag + 'a_low[%d] read back (9 significant digits)' % i, got.a_low[i], want['al'][i], rel=1e-8)
        ctx.eq(tag + 'a_high[%d] read back (9 significant digits)' % i, got.a_high[i], want['ah'][i], rel=1e-8)


SIGNS = ['pos', 'neg', 'alt', 'mix', 'zero']


def h_roundtrip(ctx, shapes, fmt, write_date, sign_rot=0):
    """shapes: per species (name length, first-char class, element shapes)"""
    sps, wants = [], []
    for k, (nl, first, elems) in enumerate(shapes):
        sp, w = _species(ctx, 's%d' % k, nl, first, elems, None if write_date else 'note', signs=SIGNS[(k + sign_rot) % len(SIGNS)])
        sps.append(sp)
        wants.append(w)
    for i in range(len(wants)):
        for j in range(i + 1, len(wants)):
            ctx.assume(wants[i]['name'] != wants[j]['name'])
    # dictionary input: keys deliberately not in sorted order (the dictionary's own order is the species order)
    arg = sps if fmt != 'dictin' else {('k%d' % (len(sps) - 1 - i)): s for i, s in enumerate(sps)}
    text, back = _roundtrip(ctx, arg, 'list' if fmt == 'dictin' else fmt, write_date)
    # layout of what was written
    lines = text.split('\n')
    ctx.true('header, four records per species, END', len(lines) == 2 + 4 * len(sps) + 1)
    if len(lines) == 2 + 4 * len(sps) + 1:
        for k in range(len(sps)):
            for r in range(4):
                ln = lines[2 + 4 * k + r]
                ctx.true('species %d record %d: 80 columns with the record number in column 80' % (k, r + 1),
                         ctx.length(ln) == 80 and ln[79] == str(r + 1))
            l1 = lines[2 + 4 * k]
            ctx.true('species %d: phase in column 45' % k, l1[44] == wants[k]['phase'])
    if fmt == 'dict':
        got = list(back.values())
        ctx.true('dictionary keyed by name', all(any(bool(key == w['name']) for w in wants) for key in back))
    else:
        got = list(back)
        if fmt == 'tuple':
            ctx.true('tuple returned', isinstance(back, tuple))
    ctx.true('as many species read as written (none dropped, duplicated or merged)', len(got) == len(sps))
    if len(got) == len(sps):
        for k, (gsp, w) in enumerate(zip(got, wants)):
            _check_species(ctx, gsp, w, 'species %d: ' % k)


def h_supplementary(ctx, namelen, whole_file=False):
    """supplementary thermdat entries (supp_data) and a comment block (supp_txt) in front of the species: everything comes back,
    in file order, whatever the supplementary species is called"""
    from pmutt.io.thermdat import write_thermdat, read_thermdat
    E1 = [(1, 1)]
    sp0, w0 = _species(ctx, 's0', namelen, 'upper', E1, None, signs='pos')
    sp1, w1 = _species(ctx, 's1', 3, 'upper', E1, None, signs='neg')
    ctx.assume(w0['name'] != w1['name'])
    l0 = write_thermdat([sp0], filename=None).split('\n')
    supp = l0[2] + '\n' + l0[3] + '\n' + l0[4] + '\n' + l0[5]            # the four records of the supplementary species
    if whole_file:
        # ... or the whole text of another thermdat file, header and END line included (its END is not the end of ours)
        supp = l0[0] + '\n' + l0[1] + '\n' + supp + '\nEND'
    comment = '!species above taken from another file; END of the THERMO comments'
    text = write_thermdat([sp1], filename=None, supp_data=supp, supp_txt=comment)
    if ctx.is_sym():
        from symx import symstr
        symstr.VFS['mem://c05supp.thermdat'] = text
        back = read_thermdat('mem://c05supp.thermdat', format='list')
    else:
        import tempfile
        fd, path = tempfile.mkstemp(suffix='.thermdat')
        os.close(fd)
        try:
            with open(path, 'w') as f:
                f.write(text)
            back = read_thermdat(path, format='list')
        finally:
            os.unlink(path)
    ctx.true('supplementary species and listed species both read, nothing else', len(back) == 2)
    if len(back) == 2:
        _check_species(ctx, back[0], w0, 'supplementary species: ')
        _check_species(ctx, back[1], w1, 'listed species: ')


def groups(tier):
    th = tier == 'thorough'
    g = []
    for nl in ((3, 4, 6) if th else (4,)):
        g.append(dict(name='supplementary-data/name%d' % nl, harness=h_supplementary, params=dict(namelen=nl), no_validate=True, max_paths=6000,
                      budget_s=1500 if not th else 7000))
    g.append(dict(name='supplementary-data/whole-file/name3', harness=h_supplementary, params=dict(namelen=3, whole_file=True), no_validate=True,
                  max_paths=6000, budget_s=1500 if not th else 7000))
    E1 = [(1, 1)]
    shapes1 = [
        (1, 'upper', []), (3, 'upper', E1), (6, 'upper', [(1, 1), (1, 2)]), (3, 'any', [(2, 1)]), (4, 'upper', [(1, 1), (1, 0), (1, 3)]),
        (5, 'upper', [(2, 2), (1, 1), (1, 1), (1, 2)]), (3, 'upper', [(2, 3)]), (3, 'upper', [(1, 0), (1, 1), (1, 0), (1, 1), (2, 1)]), (2, 'upper', [(1, 3), (2, 1)]), (6, 'any', E1),
    ]
    if th:
        shapes1 += [(8, 'upper', E1), (10, 'upper', [(1, 1)]), (4, 'upper', [(2, 3), (2, 3)])]
    for (nl, first, elems) in shapes1:
        for fmt in ('list',):
            for wd in (True,):
                nm = 'roundtrip/1sp/name%d-%s/elements=%s/%s/date=%s' % (nl, first, '+'.join('%dL%dd' % e for e in elems) or 'none', fmt, wd)
                for rot in (range(len(SIGNS)) if th else [len(g) % len(SIGNS)]):
                    g.append(dict(name=nm + '/signs=%s' % SIGNS[rot], harness=h_roundtrip,
                                  params=dict(shapes=[(nl, first, elems)], fmt=fmt, write_date=wd, sign_rot=rot), no_validate=True,
                                  max_paths=3000, budget_s=1500 if not th else 7000))
    g.append(dict(name='roundtrip/1sp/notes-instead-of-date', harness=h_roundtrip, params=dict(shapes=[(3, 'upper', E1)], fmt='list', write_date=False),
                  no_validate=True, max_paths=3000))
    # the longest names the property speaks of (the name field is 15 wide, one guaranteed blank after it)
    for nl in ((15, 14, 12) if th else (15,)):
        for wd in (True, False):
            g.append(dict(name='roundtrip/1sp/name%d-upper/date=%s' % (nl, wd), harness=h_roundtrip,
                          params=dict(shapes=[(nl, 'upper', E1)], fmt='list', write_date=wd, sign_rot=len(g) % len(SIGNS)), no_validate=True,
                          max_paths=3000, budget_s=1500 if not th else 7000))
    two = [[(3, 'upper', E1), (3, 'upper', E1)], [(2, 'upper', []), (4, 'upper', [(1, 2)])]]
    if th:
        two += [[(5, 'upper', E1), (3, 'upper', E1)], [(3, 'upper', E1), (3, 'upper', E1), (3, 'upper', E1)]]
    for shapes in two:
        for fmt in ('list', 'tuple', 'dict', 'dictin'):
            nm = 'roundtrip/%dsp/%s/%s' % (len(shapes), '+'.join('name%d' % s[0] for s in shapes), fmt)
            g.append(dict(name=nm, harness=h_roundtrip, params=dict(shapes=shapes, fmt=fmt, write_date=True, sign_rot=len(g) % len(SIGNS)),
                          no_validate=True, max_paths=6000, budget_s=1500 if not th else 7000))
    return g
