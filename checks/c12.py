"""C12  Unit tables form a consistent algebra and agree with their definitions."""
import itertools
from checks.common import *

TOL = 2e-4      # rounding of the coarsest tabulated constant (DESIGN 4/C12)

META = dict(
    functions=['pmutt.constants.convert_unit', 'R', 'h', 'kb', 'c', 'm_e', 'm_p', 'P0', 'T0', 'V0', 'energy_to_*', 'freq_to_*',
               'temp_to_*', 'wavenumber_to_*', 'inertia_to_temp', 'debye_to_einstein', 'einstein_to_debye',
               'atomic_weight', 'S_elements', 'pmutt.get_molecular_weight'],
    bounds=dict(quick='every unit string of type_dict: every ordered pair and triple within each quantity type, every cross-type '
                      'ordered pair; the converted number is a symbolic real (any value, including 0 and negatives); table-vs-definition '
                      'clauses within rel %g; compositions: symbolic non-negative counts over 1-3 elements chosen per VERIF_SEED '
                      'from the whole table plus every element once' % TOL),
    outside_claim=['IEEE rounding of the conversions (exact rational arithmetic on the literals the source contains)'],
    stubs=[],
    assumptions=['unit strings enumerated from pmutt.constants.type_dict (configuration enumeration; the numeric argument is solver-quantified)'],
)

PT = ('H He Li Be B C N O F Ne Na Mg Al Si P S Cl Ar K Ca Sc Ti V Cr Mn Fe Co Ni Cu Zn Ga Ge As Se Br Kr Rb Sr Y Zr Nb Mo Tc '
      'Ru Rh Pd Ag Cd In Sn Sb Te I Xe Cs Ba La Ce Pr Nd Pm Sm Eu Gd Tb Dy Ho Er Tm Yb Lu Hf Ta W Re Os Ir Pt Au Hg Tl Pb Bi '
      'Po At Rn Fr Ra Ac Th Pa U Np Pu Am Cm Bk Cf Es Fm Md No Lr Rf Db Sg Bh Hs Mt Ds Rg Cn Nh Fl Mc Lv Ts Og').split()
ALIASES = {'Nh': ['Uut'], 'Mc': ['Uup'], 'Ts': ['Uus'], 'Og': ['Uuo'], 'Cn': ['Uub'], 'Fl': ['Uuq'], 'Lv': ['Uuh']}


def _types():
    from pmutt import constants as c
    by = {}
    for u, t in c.type_dict.items():
        by.setdefault(t, []).append(u)
    return by


def h_within(ctx, qtype):
    """reflexive, invertible, transitive within one quantity type"""
    from pmutt import constants as c
    units = _types()[qtype]
    x = ctx.real('x')
    for u in units:
        ctx.eq('reflexive %s' % u, c.convert_unit(num=x, initial=u, final=u), x)
    for u, v in itertools.permutations(units, 2):
        y = c.convert_unit(num=x, initial=u, final=v)
        ctx.eq('invertible %s->%s->%s' % (u, v, u), c.convert_unit(num=y, initial=v, final=u), x)
        if qtype != 'temp':
            ctx.eq('proportional %s->%s' % (u, v), y, x * c.convert_unit(initial=u, final=v), rel=1e-12)
    for u, v, w in itertools.permutations(units, 3):
        ctx.eq('transitive %s->%s->%s' % (u, v, w),
               c.convert_unit(num=c.convert_unit(num=x, initial=u, final=v), initial=v, final=w),
               c.convert_unit(num=x, initial=u, final=w))
    if qtype == 'temp':
        # affine with the textbook anchors
        ctx.eq('0 C = 273.15 K', c.convert_unit(num=0., initial='C', final='K'), 273.15)
        ctx.eq('32 F = 0 C', c.convert_unit(num=32., initial='F', final='C'), 0.0)
        ctx.eq('212 F = 100 C', c.convert_unit(num=212., initial='F', final='C'), 100.0)
        ctx.eq('0 K = 0 R', c.convert_unit(num=0., initial='K', final='R'), 0.0)
        ctx.eq('K->R is 9/5', c.convert_unit(num=x, initial='K', final='R'), x * 9 / 5)
        y = ctx.real('y')
        for u, v in itertools.permutations(units, 2):
            ctx.eq('affine %s->%s' % (u, v),
                   c.convert_unit(num=(x + y) / 2, initial=u, final=v),
                   (c.convert_unit(num=x, initial=u, final=v) + c.convert_unit(num=y, initial=u, final=v)) / 2)


def h_cross(ctx, qtype):
    """conversion between different quantity types is refused (for any number)"""
    from pmutt import constants as c
    by = _types()
    x = ctx.real('x')
    for u in by[qtype]:
        for t2, us in by.items():
            if t2 == qtype:
                continue
            for v in us:
                try:
                    c.convert_unit(num=x, initial=u, final=v)
                except ValueError:
                    ctx.true('refused %s->%s' % (u, v), True)
                else:
                    ctx.fail('refused %s->%s' % (u, v))
    for bad in ('furlong', '', 'j'):
        for args in (dict(initial=bad, final=by[qtype][0]), dict(initial=by[qtype][0], final=bad)):
            try:
                c.convert_unit(num=x, **args)
            except ValueError:
                ctx.true('unknown unit refused %r' % (args,), True)
            else:
                ctx.fail('unknown unit refused %r' % (args,))


def _f(c, u, v):
    return c.convert_unit(initial=u, final=v)


def h_derived(ctx):
    """area = length^2, volume = length^3, L atm = L x atm, per-amount energies = energy / amount"""
    from pmutt import constants as c
    x = ctx.real('x')
    L = {'m2': 'm', 'cm2': 'cm', 'A2': 'A', 'km2': 'km', 'inch2': 'inch', 'ft2': 'ft'}
    for a, l in L.items():
        ctx.eq('%s = (%s)^2' % (a, l), c.convert_unit(num=x, initial='m2', final=a), x * _f(c, 'm', l)**2, rel=TOL)
    V = {'m3': 'm', 'cm3': 'cm', 'inch3': 'inch', 'ft3': 'ft'}
    for a, l in V.items():
        ctx.eq('%s = (%s)^3' % (a, l), c.convert_unit(num=x, initial='m3', final=a), x * _f(c, 'm', l)**3, rel=TOL)
    ctx.eq('mL = cm3', c.convert_unit(num=x, initial='mL', final='cm3'), x, rel=TOL)
    ctx.eq('L = 1000 cm3', c.convert_unit(num=x, initial='L', final='cm3'), 1000 * x, rel=TOL)
    # 1 L atm = (1e-3 m3)(101325 Pa) J
    ctx.eq('L atm = volume x pressure', c.convert_unit(num=x, initial='L atm', final='J'),
           x * _f(c, 'L', 'm3') * _f(c, 'atm', 'Pa'), rel=TOL)
    # per-amount energies
    for e in ('J', 'kJ', 'cal', 'kcal'):
        ctx.eq('%s/mol scales as %s' % (e, e), c.convert_unit(num=x, initial='J/mol', final=e + '/mol'), x * _f(c, 'J', e), rel=TOL)
    for e in ('eV', 'Eh', 'Ha'):
        for per in ('molecule', 'particle'):
            ctx.eq('%s/%s = %s per mol / NA' % (e, per, e), c.convert_unit(num=x, initial='J/mol', final='%s/%s' % (e, per)),
                   x * _f(c, 'J', e) / c.Na, rel=TOL)
    ctx.eq('mol = NA molecules', c.convert_unit(num=x, initial='mol', final='molecule'), x * c.Na, rel=TOL)
    ctx.eq('molec = molecule', c.convert_unit(num=x, initial='molec', final='molecule'), x)
    ctx.eq('Eh = Ha', c.convert_unit(num=x, initial='Eh', final='Ha'), x)
    # well-known definitions (independent of the table): tolerance = table rounding
    defs = [('cal', 'J', 4.184), ('kcal', 'J', 4184.), ('eV', 'J', 1.6021766208e-19), ('Ha', 'J', 4.359744650e-18),
            ('inch', 'cm', 2.54), ('ft', 'inch', 12.), ('mile', 'ft', 5280.), ('A', 'm', 1e-10), ('nm', 'm', 1e-9), ('km', 'm', 1e3),
            ('atm', 'Pa', 101325.), ('bar', 'Pa', 1e5), ('torr', 'Pa', 101325. / 760.), ('mmHg', 'Pa', 133.322387415), ('psi', 'Pa', 6894.757293),
            ('kPa', 'Pa', 1e3), ('MPa', 'Pa', 1e6), ('lbs', 'kg', 0.45359237), ('amu', 'kg', 1.660539040e-27), ('g', 'kg', 1e-3),
            ('min', 's', 60.), ('hr', 's', 3600.), ('day', 's', 86400.), ('ms', 's', 1e-3), ('ns', 's', 1e-9), ('ps', 's', 1e-12)]
    for u, v, k in defs:
        ctx.eq('definition 1 %s = %g %s' % (u, k, v), c.convert_unit(num=x, initial=u, final=v), x * k, rel=TOL)


def _R_expected(c, units):
    """R in `units` from the SI value pushed through convert_unit"""
    R_SI = c.R('J/mol/K')
    parts = units.split('/')
    head = parts[0]
    if ' ' in head:         # volume x pressure
        vol, pres = head.split(' ')
        f = _f(c, 'm3', vol) * _f(c, 'Pa', pres)
    else:
        f = _f(c, 'J', head)
    if 'mol' in parts:
        return R_SI * f
    return R_SI * f / c.Na     # per molecule (eV/K, Eh/K, Ha/K)


R_UNITS = ['J/mol/K', 'kJ/mol/K', 'L kPa/mol/K', 'cm3 kPa/mol/K', 'm3 Pa/mol/K', 'cm3 MPa/mol/K', 'm3 bar/mol/K', 'L bar/mol/K',
           'L torr/mol/K', 'cal/mol/K', 'kcal/mol/K', 'L atm/mol/K', 'cm3 atm/mol/K', 'eV/K', 'Eh/K', 'Ha/K']


def h_constants(ctx):
    from pmutt import constants as c
    x = ctx.real('x')
    for u in R_UNITS:
        ctx.eq('R(%s) = R(J/mol/K) converted' % u, x * c.R(u), x * _R_expected(c, u), rel=TOL)
    for bad in ('J/mol', 'BTU/mol/K'):
        try:
            c.R(bad)
        except KeyError:
            ctx.true('R refuses %s' % bad, True)
        else:
            ctx.fail('R refuses %s' % bad)
    ctx.eq('R = kB NA', x * c.R('J/mol/K'), x * c.kb('J/K') * c.Na, rel=1e-6)
    for u in ('J s', 'kJ s', 'eV s', 'Eh s', 'Ha s'):
        e = u.split(' ')[0]
        ctx.eq('h(%s) = h(J s) converted' % u, x * c.h(u), x * c.h('J s') * _f(c, 'J', e), rel=TOL)
        ctx.eq('hbar(%s) = h/2pi' % u, x * c.h(u, bar=True) * 2 * 3.141592653589793, x * c.h(u), rel=1e-9)
    for u in ('J/K', 'kJ/K', 'eV/K', 'cal/K', 'kcal/K', 'Eh/K', 'Ha/K'):
        e = u.split('/')[0]
        ctx.eq('kb(%s) = kb(J/K) converted' % u, x * c.kb(u), x * c.kb('J/K') * _f(c, 'J', e), rel=TOL)
    ctx.eq('c(cm/s) = c(m/s) converted', x * c.c('cm/s'), x * c.c('m/s') * _f(c, 'm', 'cm'), rel=TOL)
    by = _types()
    for u in by['mass']:
        ctx.eq('m_e(%s) = m_e(kg) converted' % u, x * c.m_e(u), x * c.m_e('kg') * _f(c, 'kg', u), rel=TOL)
        ctx.eq('m_p(%s) = m_p(kg) converted' % u, x * c.m_p(u), x * c.m_p('kg') * _f(c, 'kg', u), rel=TOL)
    ctx.eq('m_e(kg) CODATA', x * c.m_e('kg'), x * 9.10938356e-31, rel=TOL)
    ctx.eq('m_p(kg) CODATA', x * c.m_p('kg'), x * 1.672621898e-27, rel=TOL)
    for u in by['pressure']:
        ctx.eq('P0(%s) = 1 bar converted' % u, x * c.P0(u), c.convert_unit(num=x, initial='bar', final=u), rel=TOL)
    ctx.eq('P0(Pa) = 1e5', c.P0('Pa'), 1e5, rel=TOL)
    for u in by['temp']:
        ctx.eq('T0(%s) = 298.15 K converted' % u, c.T0(u), c.convert_unit(num=298.15, initial='K', final=u), tol=1e-9)
    ctx.eq('T0(C) = 25', c.T0('C'), 25.0, tol=1e-9)
    for u in by['volume']:
        ctx.eq('V0(%s) = R T0 / P0 converted' % u, x * c.V0(u),
               c.convert_unit(num=x * c.R('J/mol/K') * c.T0('K') / c.P0('Pa'), initial='m3', final=u), rel=TOL)
    ctx.eq('P0 V0 = R T0', c.P0('Pa') * c.V0('m3'), c.R('J/mol/K') * c.T0('K'), rel=1e-9)
    for k, v in dict(Y=1e24, Z=1e21, E=1e18, P=1e15, T=1e12, G=1e9, M=1e6, k=1e3, m=1e-3, p=1e-12, f=1e-15, a=1e-18, z=1e-21, y=1e-24).items():
        ctx.eq('SI prefix %s' % k, c.prefixes[k], v)


def h_spectro(ctx, sign=1):
    """spectroscopic helpers are mutually inverse for all x != 0 (either sign: imaginary modes are entered as negative
    wavenumbers), and agree with one another"""
    from pmutt import constants as c
    x = ctx.real('x', 1e-30, 1e30) if sign > 0 else ctx.real('x', -1e30, -1e-30)
    kinds = ['energy', 'freq', 'temp', 'wavenumber']
    fn = lambda a, b: getattr(c, '%s_to_%s' % (a, b))
    for a, b in itertools.permutations(kinds, 2):
        ctx.eq('%s->%s->%s' % (a, b, a), fn(b, a)(fn(a, b)(x)), x)
    for a, b, d in itertools.permutations(kinds, 3):
        ctx.eq('%s->%s->%s = %s->%s' % (a, b, d, a, d), fn(b, d)(fn(a, b)(x)), fn(a, d)(x))
    ctx.eq('E = h nu', c.freq_to_energy(x), x * c.h('J s'))
    ctx.eq('E = kB T', c.temp_to_energy(x), x * c.kb('J/K'))
    ctx.eq('nu = c * wavenumber', c.wavenumber_to_freq(x), x * c.c('cm/s'))
    ctx.eq('debye->einstein->debye', c.einstein_to_debye(c.debye_to_einstein(x)), x)
    ctx.eq('einstein->debye->einstein', c.debye_to_einstein(c.einstein_to_debye(x)), x)
    ctx.eq('einstein = (pi/6)^(1/3) debye', c.debye_to_einstein(x), x * 0.8059959770082347, rel=1e-9)
    # moment of inertia:  B = h/(8 pi^2 c I)  and  theta_rot = hbar^2/(2 I kB) = h c B / kB
    ctx.eq('inertia_to_temp(wavenumber_to_inertia(w)) = wavenumber_to_temp(w)',
           c.inertia_to_temp(c.wavenumber_to_inertia(x)), c.wavenumber_to_temp(x), rel=1e-6)
    ctx.eq('wavenumber_to_inertia is an involution up to h/(8 pi^2 c)', c.wavenumber_to_inertia(c.wavenumber_to_inertia(x)), x)
    ctx.eq('theta_rot = hbar^2/(2 I kB)', c.inertia_to_temp(x) * x,
           (c.h('J s') / (2 * 3.141592653589793))**2 / (2 * c.kb('J/K')), rel=1e-6)


def h_elements(ctx):
    """same atomic weight / standard entropy by symbol and by atomic number"""
    from pmutt import constants as c
    for name, table in (('atomic_weight', c.atomic_weight), ('S_elements', c.S_elements)):
        n = 0
        for z, sym in enumerate(PT, 1):
            keys = [k for k in [sym] + ALIASES.get(sym, []) if k in table]
            if z in table and keys:
                for k in keys:
                    ctx.eq('%s[%d] = %s[%s]' % (name, z, name, k), table[z], table[k])
                    n += 1
            elif (z in table) != bool(keys):
                ctx.note('%s: Z=%d present by %s only' % (name, z, 'number' if z in table else 'symbol'))
        ctx.true('%s pairs found' % name, n >= 90)
        for k in table:
            if isinstance(k, str):
                ctx.true('%s symbol %s is a known element' % (name, k), k in PT or any(k in v for v in ALIASES.values()))
            else:
                ctx.true('%s Z=%r in 1..118' % (name, k), 1 <= k <= 118)
    for z, sym in enumerate(PT, 1):
        if z in c.atomic_weight:
            ctx.true('atomic weight of %s positive and below 300' % sym, 0 < c.atomic_weight[z] < 300)


def h_molweight(ctx, symbols):
    """molar mass = count-weighted sum of atomic weights, for symbolic counts; same by number"""
    from pmutt import constants as c, get_molecular_weight
    counts = [ctx.real('n_%s' % s, 0, 999) for s in symbols]
    comp = dict(zip(symbols, counts))
    want = 0
    for s, n in zip(symbols, counts):
        want = want + n * c.atomic_weight[s]
    ctx.eq('molar mass = sum count x weight', get_molecular_weight(comp), want)
    byz = {PT.index(s) + 1: n for s, n in zip(symbols, counts) if (PT.index(s) + 1) in c.atomic_weight}
    if len(byz) == len(symbols):
        ctx.eq('molar mass by atomic number = by symbol', get_molecular_weight(byz), want)
    # a second composition of the same elements in the same process: nothing may be carried over from the first call
    counts2 = [ctx.real('m_%s' % s, 0, 999) for s in symbols]
    want2 = 0
    for s, n in zip(symbols, counts2):
        want2 = want2 + n * c.atomic_weight[s]
    ctx.eq('second composition of the same elements: molar mass = sum count x weight', get_molecular_weight(dict(zip(symbols, counts2))), want2)
    ctx.eq('first composition again', get_molecular_weight(dict(zip(symbols, counts))), want)


def h_molweight_formula(ctx):
    from pmutt import constants as c, get_molecular_weight
    ctx.eq('CH3CH2OH', get_molecular_weight('CH3CH2OH'), 2 * c.atomic_weight['C'] + 6 * c.atomic_weight['H'] + c.atomic_weight['O'])
    ctx.eq('Al2O3', get_molecular_weight('Al2O3'), 2 * c.atomic_weight['Al'] + 3 * c.atomic_weight['O'])
    ctx.eq('empty composition', get_molecular_weight({}), 0.0)


def groups(tier):
    import random, os
    g = []
    by = None
    types = ['energy', 'energy/amount', 'time', 'amount', 'temp', 'length', 'area', 'volume', 'mass', 'pressure']
    for t in types:
        g.append(dict(name='within/%s' % t, harness=h_within, params=dict(qtype=t)))
        g.append(dict(name='cross/%s' % t, harness=h_cross, params=dict(qtype=t)))
    g.append(dict(name='derived-units', harness=h_derived))
    g.append(dict(name='constants', harness=h_constants))
    g.append(dict(name='spectroscopic/positive', harness=h_spectro, params=dict(sign=1)))
    g.append(dict(name='spectroscopic/negative', harness=h_spectro, params=dict(sign=-1)))
    g.append(dict(name='elements', harness=h_elements, no_validate=True))
    seed = int(os.environ.get('VERIF_SEED', '0') or 0)
    rnd = random.Random(seed)
    known = [s for s in PT[:92]]
    sets = [['H'], ['C', 'H', 'O'], ['Pt', 'O'], ['Ca', 'Ti', 'O']]
    for _ in range(8 if tier == 'thorough' else 3):
        sets.append(rnd.sample(known, rnd.randint(1, 4)))
    # every element once (chunks of 8)
    for i in range(0, 92, 8):
        sets.append(known[i:i + 8])
    for i, s in enumerate(sets):
        g.append(dict(name='molar-mass/%d:%s' % (i, '-'.join(s)), harness=h_molweight, params=dict(symbols=s)))
    g.append(dict(name='molar-mass/formula', harness=h_molweight_formula))
    return g
