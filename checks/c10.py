"""C10  Reference adjustment reproduces the experimental enthalpies it was fitted to."""
from checks.common import *

META = dict(
    functions=['pmutt.empirical.references.References.__init__/fit_HoRT_offset/get_descriptors/get_descriptors_matrix/get_HoRT/get_GoRT/'
               'get_SoR/get_CvoR/get_CpoR/append', 'pmutt.empirical.references.Reference', 'pmutt.statmech.StatMech.get_quantity '
               '(references branch) and get_HoRT/get_H/get_GoRT/get_SoR/get_CpoR/get_CvoR'],
    bounds=dict(quick='concrete composition matrices (1x1, 2x2 full rank, 3x2 tall, 3x3 full rank, 2x2 rank-deficient, 3x2 rank-deficient; '
                      'descriptor = elements or a custom dictionary); DFT enthalpies (affine in T, symbolic), experimental enthalpies, a common '
                      'reference temperature in [200,1500] and T in [50,5000] symbolic; target compositions with symbolic counts including a '
                      'descriptor absent from the references; history of 1-2 appends + refit'),
    outside_claim=['unequal reference temperatures (the code warns and averages; the property gives no tolerance)',
                   'that LAPACK returns a least-squares solution (stub: any solution of the normal equations)', 'symbolic composition matrices'],
    stubs=['numpy.linalg.lstsq(A, b): fresh x with A^T A x = A^T b (concrete A, symbolic b)', 'reference model = protocol stub, HoRT affine in T'],
    assumptions=['all references share one reference temperature'],
)

SETS = {
    '1x1': [{'H': 2}],
    '2x2-full': [{'H': 2}, {'O': 2}],
    '3x2-tall': [{'H': 2}, {'O': 2}, {'H': 2, 'O': 1}],
    '3x3-full': [{'H': 2}, {'C': 1, 'O': 1}, {'C': 1, 'O': 2}],
    '1x1-fractional': [{'H': 2.5}],
    '2x2-fractional': [{'H': 0.5, 'O': 1.5}, {'H': 2, 'O': 0.25}],
    '2x2-deficient': [{'H': 2, 'O': 1}, {'H': 4, 'O': 2}],
    '3x2-deficient': [{'H': 2, 'O': 2}, {'H': 1, 'O': 1}, {'H': 3, 'O': 3}],
}


class RefModel:
    def __init__(self, ctx, tag):
        self.c0 = ctx.real(tag + '.H0', -500, 500)
        self.c1 = ctx.real(tag + '.H1', -0.1, 0.1)

    def get_HoRT(self, T=888.0, P=1.0):
        return self.c0 + self.c1 * T

    def get_SoR(self, T=888.0, P=1.0):
        return self.c1 * T + 3.0

    def get_CpoR(self, T=888.0, P=1.0):
        return self.c1 + 2.0

    def get_CvoR(self, T=888.0, P=1.0):
        return self.c1 + 1.0

    def get_UoRT(self, T=888.0, P=1.0):
        return self.c0 + self.c1 * T - 1.0

    def get_GoRT(self, T=888.0, P=1.0):
        return self.get_HoRT(T=T) - self.get_SoR(T=T)

    def get_FoRT(self, T=888.0, P=1.0):
        return self.get_UoRT(T=T) - self.get_SoR(T=T)

    def get_q(self, T=888.0, P=1.0):
        return 1.0


def _install_lstsq(ctx):
    if not ctx.is_sym():
        return
    from symx import npshim
    import numpy as np

    def lstsq(A, b, rcond=None):
        A = np.asarray(A, dtype=object)
        n, m = A.shape
        x = [ctx.fresh('offset') for _ in range(m)]
        for j in range(m):
            lhs = 0
            rhs = 0
            for i in range(n):
                aij = float(A[i, j])
                if aij == 0:
                    continue
                rhs = rhs + aij * b[i]
                row = 0
                for k in range(m):
                    if float(A[i, k]) != 0:
                        row = row + float(A[i, k]) * x[k]
                lhs = lhs + aij * row
            ctx.assume(lhs == rhs)
        out = np.empty(m, dtype=object)
        for k in range(m):
            out[k] = x[k]
        return (out, None, None, None)
    npshim.stubs['lstsq'] = lstsq


def _refs(ctx, comps, descriptor, T_ref, pass_T_ref):
    from pmutt.empirical.references import Reference, References
    refs, models, exps = [], [], []
    for i, comp in enumerate(comps):
        m = RefModel(ctx, 'ref%d' % i)
        e = ctx.real('ref%d.Hexp' % i, -500, 500)
        kw = dict(name='ref%d' % i, T_ref=T_ref, HoRT_ref=e, model=m)
        if descriptor == 'elements':
            kw['elements'] = dict(comp)
            r = Reference(**kw)
        else:
            kw['elements'] = {'X': 1}
            r = Reference(**kw)
            setattr(r, descriptor, dict(comp))
        refs.append(r)
        models.append(m)
        exps.append(e)
    kw = dict(references=refs, descriptor=descriptor)
    if pass_T_ref:
        kw['T_ref'] = T_ref
    return References(**kw), refs, models, exps


def _species(ctx, model, comp, descriptor, references):
    """a StatMech species whose only mode is `model`"""
    from pmutt.statmech import StatMech
    sp = StatMech(name='target', trans_model=model, references=references, elements=dict(comp) if descriptor == 'elements' else {'X': 1})
    if descriptor != 'elements':
        setattr(sp, descriptor, dict(comp))
    return sp


def _rank_full_square(name):
    return name in ('1x1', '2x2-full', '3x3-full')


def h_fit(ctx, setname, descriptor, pass_T_ref):
    _install_lstsq(ctx)
    comps = SETS[setname]
    T_ref = ctx.real('T_ref', 200, 1500)
    R, refs, models, exps = _refs(ctx, comps, descriptor, T_ref, pass_T_ref)
    keys = sorted({k for c_ in comps for k in c_})
    ctx.true('one offset per descriptor', set(R.offset.keys()) == set(keys))
    resid = []
    for comp, m, e in zip(comps, models, exps):
        sp = _species(ctx, m, comp, descriptor, R)
        resid.append(sp.get_HoRT(T=T_ref) - e)
    if _rank_full_square(setname):
        for i, r in enumerate(resid):
            ctx.eq('reference %d: adjusted H(T_ref) = experimental H' % i, r, 0.0)
    for k in keys:
        tot = 0
        for comp, r in zip(comps, resid):
            if comp.get(k):
                tot = tot + comp[k] * r
        ctx.eq('least-squares residual orthogonal to descriptor %s' % k, tot, 0.0)
    ctx.eq('common reference temperature kept', R.T_ref, T_ref)


def h_adjust(ctx, setname, descriptor):
    """the adjustment: linear in composition, T-independent in energy units, no S/Cv/Cp, removable"""
    _install_lstsq(ctx)
    comps = SETS[setname]
    T_ref = ctx.real('T_ref', 200, 1500)
    R, refs, models, exps = _refs(ctx, comps, descriptor, T_ref, False)
    keys = sorted({k for c_ in comps for k in c_})
    T = ctx.real('T', 50, 5000)
    # descriptors absent from the references: before, between and after the referenced ones
    counts = {'Aa': ctx.real('n_absent_first', 0, 20)}
    for i, k in enumerate(keys):
        counts[k] = ctx.real('n_' + k, 0, 20)
        if i == 0:
            counts['Mm'] = ctx.real('n_absent_middle', 0, 20)
    counts['Zz'] = ctx.real('n_absent_last', 0, 20)
    m = RefModel(ctx, 'target')
    sp = _species(ctx, m, counts, descriptor, R)
    want = 0
    for k in keys:
        want = want - R.offset[k] * counts[k]
    adj = sp.get_HoRT(T=T) - m.get_HoRT(T=T)
    ctx.eq('H adjustment = -(sum offset x count) x T_ref/T  (absent descriptors contribute 0)', adj, want * T_ref / T)
    ctx.eq('adjustment energy independent of T', ctx.deriv(lambda t: t * (sp.get_HoRT(T=t) - m.get_HoRT(T=t)), T), 0.0, info='deriv')
    ctx.eq('G adjustment = H adjustment', sp.get_GoRT(T=T) - m.get_GoRT(T=T), adj)
    ctx.eq('no S contribution', sp.get_SoR(T=T), m.get_SoR(T=T))
    ctx.eq('no Cp contribution', sp.get_CpoR(T=T), m.get_CpoR(T=T))
    ctx.eq('no Cv contribution', sp.get_CvoR(T=T), m.get_CvoR(T=T))
    from pmutt import constants as c
    ctx.eq('H with units carries the same adjustment', sp.get_H(T=T, units='kJ/mol') - m.get_HoRT(T=T) * c.R('kJ/mol/K') * T,
           want * T_ref * c.R('kJ/mol/K'))
    for q in ('HoRT', 'GoRT', 'SoR', 'CpoR'):
        ctx.eq('use_references=False removes the adjustment from %s exactly' % q, getattr(sp, 'get_' + q)(T=T, use_references=False),
               getattr(m, 'get_' + q)(T=T))
    # conditions addressed to the species by name reach the reference adjustment like every other contribution
    T2 = ctx.real('T_for_the_species', 50, 5000)
    ctx.eq('a temperature given in <name>_kwargs is the one the adjustment is scaled with',
           sp.get_HoRT(T=T, target_kwargs={'T': T2}), m.get_HoRT(T=T2) + want * T_ref / T2)
    ctx.eq('References.get_HoRT without T is the offset sum', R.get_HoRT(descriptors=dict(counts)), want)
    # linearity in composition
    twice = {k: 2 * v for k, v in counts.items()}
    ctx.eq('adjustment linear in composition', R.get_HoRT(descriptors=twice, T=T), 2 * R.get_HoRT(descriptors=dict(counts), T=T))


def h_history(ctx, setname, n_append):
    """append references then refit == construct from the longer list"""
    _install_lstsq(ctx)
    from pmutt.empirical.references import References
    comps = SETS[setname]
    T_ref = ctx.real('T_ref', 200, 1500)
    full, refs, models, exps = _refs(ctx, comps, 'elements', T_ref, False)
    part = References(references=list(refs[:len(refs) - n_append]))
    for r in refs[len(refs) - n_append:]:
        part.append(r)
    part.fit_HoRT_offset()
    ctx.true('same descriptors after append + refit', set(part.offset) == set(full.offset))
    T = ctx.real('T', 50, 5000)
    keys = sorted(full.offset)
    counts = {k: ctx.real('n_' + k, 0, 20) for k in keys}
    if _rank_full_square(setname) or setname == '3x2-tall':
        for k in keys:
            ctx.eq('offset[%s] after append + refit = offset from the full list' % k, part.offset[k], full.offset[k])
        ctx.eq('adjustment after append + refit = adjustment from the full list', part.get_HoRT(descriptors=dict(counts), T=T),
               full.get_HoRT(descriptors=dict(counts), T=T))
    # in every case the refitted object satisfies the normal equations on the full list
    for k in keys:
        tot = 0
        for comp, m, e in zip(comps, models, exps):
            if comp.get(k):
                r = m.get_HoRT(T=T_ref) + part.get_HoRT(descriptors=dict(comp), T=T_ref) - e
                tot = tot + comp[k] * r
        ctx.eq('refit residual orthogonal to %s' % k, tot, 0.0)


def groups(tier):
    g = []
    for s in SETS:
        for d in ('elements', 'groups'):
            for pt in (False, True):
                if d == 'groups' and pt:
                    continue
                g.append(dict(name='fit/%s/descriptor=%s/T_ref-passed=%s' % (s, d, pt), harness=h_fit,
                              params=dict(setname=s, descriptor=d, pass_T_ref=pt)))
            g.append(dict(name='adjustment/%s/descriptor=%s' % (s, d), harness=h_adjust, params=dict(setname=s, descriptor=d)))
    for s, n in (('2x2-full', 1), ('3x2-tall', 1), ('3x3-full', 2), ('3x3-full', 1), ('3x2-deficient', 1)):
        g.append(dict(name='history/%s/append%d' % (s, n), harness=h_history, params=dict(setname=s, n_append=n)))
    return g
