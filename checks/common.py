"""helpers shared by the per-property harness modules"""
import math
import numpy as _np


def np_array(ctx, xs):
    if ctx.is_sym():
        a = _np.empty(len(xs), dtype=object)
        for i, x in enumerate(xs):
            a[i] = x
        return a
    if xs and all(isinstance(x, int) for x in xs):
        return _np.array(list(xs))
    return _np.array([float(x) for x in xs])


def log(ctx, x):
    if isinstance(x, (int, float)):
        return math.log(x)
    if ctx.is_sym():
        from symx.proxy import Sym, lift
        from symx import expr as X
        return Sym(X.log(X.to_real(lift(x))))
    return math.log(x)


def exp(ctx, x):
    if isinstance(x, (int, float)):
        return math.exp(x)
    if ctx.is_sym():
        from symx.proxy import Sym, lift
        from symx import expr as X
        return Sym(X.exp(X.to_real(lift(x))))
    return math.exp(x)


__all__ = ['np_array', 'log', 'exp', 'math']


def Q(ctx, x):
    """a constant as the exact rational its literal denotes (symbolic mode) / the float (replay)"""
    if ctx.is_sym():
        from symx.expr import snap
        return snap(x)
    return x


__all__.append('Q')


def NOT(x):
    """logical not for both proxy booleans and Python bools (~True is -2)"""
    if isinstance(x, bool):
        return not x
    return ~x


__all__.append('NOT')
