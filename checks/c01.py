"""C01  Statistical-mechanical species are thermodynamically self-consistent."""
from checks.common import *

META = dict(
    functions=['pmutt.statmech.trans.FreeTrans.*', 'pmutt.statmech.vib.HarmonicVib/QRRHOVib/EinsteinVib/DebyeVib.* and '
               '_get_valid_vib_wavenumbers', 'pmutt.statmech.rot.RigidRotor.*', 'pmutt.statmech.elec.GroundStateElec.*',
               'pmutt.statmech.nucl.EmptyNucl.*', 'pmutt.statmech.EmptyMode/ConstantMode', 'pmutt.statmech.StatMech.get_quantity and '
               'get_q/CvoR/CpoR/UoRT/HoRT/SoR/FoRT/GoRT', 'pmutt._get_mode_quantity/_pass_expected_arguments/_apply_numpy_operation',
               'pmutt.mixture._get_mix_quantity'],
    bounds=dict(quick='T 50-5000 K, P 1e-4-1e3 bar, wavenumbers 10-4500 cm-1 (and <= 0 for imaginary modes, substitute None or in range), '
                      '1-2 vibrational modes, rotational temperatures 0.01-100 K, molar mass 1-500, characteristic temperatures 50-2000 K, '
                      'spin >= 0, energies in [-100,100] eV; all symbolic reals; n_degrees 1,2,3; every documented point-group label',
                thorough='1-3 vibrational modes; ideal-gas and harmonic presets end to end'),
    outside_claim=['geometry-derived rotational temperatures / molar mass / composition (ASE Atoms + LAPACK eigen-solver) and invariance under rigid '
                   'motions - no encoding within reach; only the linear/nonlinear decision logic over symbolic bond angles is decided', 'Debye: derivative relations through the integrals (only integrands, '
                   'outer algebra and algebraic relations are decided)', 'LSR with Reaction / StatMech objects as reference (float references are covered; its additivity is '
                   'covered through the stub-mode aggregation)', 'IEEE rounding'],
    stubs=['scipy.integrate.quad in DebyeVib -> opaque integral node keyed by the traced integrand',
           'mode models in the aggregation obligations -> stub modes returning values affine in the T,P they receive'],
    assumptions=['R = kB*NA only to the 1e-9 of the tables: Sackur-Tetrode compared with tolerance 1e-6'],
)


def call(obj, name, **kw):
    """call a getter the way StatMech does (the library's own argument dispatch); a StatMech species takes its conditions
    as keyword arguments directly"""
    from pmutt import _pass_expected_arguments
    from pmutt.statmech import StatMech
    if isinstance(obj, StatMech):
        return getattr(obj, name)(**kw)
    return _pass_expected_arguments(getattr(obj, name), **kw)


def _relations(ctx, mode, T, P, trans=False, has_T_S=True):
    """defining relations of thermodynamics on one mode object"""
    g = lambda n, t=T, p=P: call(mode, n, T=t, P=p)
    U, H, S, Cv, Cp = g('get_UoRT'), g('get_HoRT'), g('get_SoR'), g('get_CvoR'), g('get_CpoR')
    ctx.eq('G = H - TS', g('get_GoRT'), H - S)
    ctx.eq('F = U - TS', g('get_FoRT'), U - S)
    ctx.eq('H - U = %s' % ('RT' if trans else '0'), H - U, 1.0 if trans else 0.0)
    ctx.eq('Cv = dU/dT', ctx.deriv(lambda t: t * g('get_UoRT', t), T), Cv, info='deriv')
    ctx.eq('Cp = dH/dT', ctx.deriv(lambda t: t * g('get_HoRT', t), T), Cp, info='deriv')
    ctx.eq('dS/dT = Cp/T at constant P', ctx.deriv(lambda t: g('get_SoR', t), T), Cp / T, info='deriv')
    ctx.eq('Cp - Cv = %s' % ('R' if trans else '0'), Cp - Cv, 1.0 if trans else 0.0)
    return U, H, S, Cv, Cp


# ------------------------------------------------------------------------------ translation
def h_trans(ctx, n):
    from pmutt.statmech.trans import FreeTrans
    from pmutt import constants as c
    M = ctx.real('M', 1, 500)
    T = ctx.real('T', 50, 5000)
    P = ctx.real('P', 1e-4, 1e3)
    mode = FreeTrans(n_degrees=n, molecular_weight=M)
    U, H, S, Cv, Cp = _relations(ctx, mode, T, P, trans=True)
    ctx.eq('dS/dP = -1/P at constant T (ideal-gas entropy falls by R ln(P2/P1))',
           ctx.deriv(lambda p: call(mode, 'get_SoR', T=T, P=p), P), -1 / P, info='deriv')
    P2 = ctx.real('P2', 1e-4, 1e3)
    ctx.eq('S(P2) - S(P1) = -ln(P2/P1)', call(mode, 'get_SoR', T=T, P=P2) - S, -(log(ctx, P2) - log(ctx, P)))
    ctx.eq('U = n/2 RT (equipartition)', U, n / 2)
    ctx.eq('Cv = n/2 R', Cv, n / 2)
    # Sackur-Tetrode (n-dimensional):  q = (2 pi m kB T / h^2)^(n/2) * kB T / P ;  S/R = ln q + n/2 + 1
    m = M * 1e-3 / c.Na
    lam = 2 * 3.141592653589793 * m * c.kb('J/K') * T / c.h('J s')**2
    lnq = (n / 2) * log(ctx, lam) + log(ctx, c.kb('J/K') * T / (P * 1e5))
    ctx.eq('S = Sackur-Tetrode', S, lnq + n / 2 + 1, tol=1e-6)
    ctx.eq('ln q = textbook translational partition function', log(ctx, call(mode, 'get_q', T=T, P=P)), lnq, tol=1e-6)
    ctx.eq('S = ln q + U + 1', S, log(ctx, call(mode, 'get_q', T=T, P=P)) + U + 1, tol=1e-9)
    ctx.eq('default pressure is 1 bar', call(mode, 'get_SoR', T=T), call(mode, 'get_SoR', T=T, P=1.0))


# ------------------------------------------------------------------------------ vibration
def _ho(ctx, theta, T):
    """textbook harmonic oscillator per mode, x = theta/T"""
    x = theta / T
    e = exp(ctx, -x)
    U = x / 2 + x * e / (1 - e)
    Cv = x**2 * e / (1 - e)**2
    S = x * e / (1 - e) - log(ctx, 1 - e)
    lnq = -x / 2 - log(ctx, 1 - e)
    return U, Cv, S, lnq


def _valid(ws, sub):
    out = []
    for w in ws:
        if w > 0.0:
            out.append(w)
        elif sub is not None:
            out.append(sub)
    return out


def h_harmonic(ctx, k, imag):
    """imag: None (all real), 'drop' (substitute None), 'sub' (symbolic substitute)"""
    from pmutt.statmech.vib import HarmonicVib
    from pmutt import constants as c
    T = ctx.real('T', 50, 5000)
    if imag is None:
        ws = [ctx.real('w%d' % i, 10, 4500) for i in range(k)]
        sub = None
    else:
        ws = []
        for i in range(k):
            w = ctx.real('w%d' % i, -4500, 4500)
            ctx.assume((w >= 10) | (w <= 0))
            ws.append(w)
        sub = ctx.real('substitute', 10, 4500) if imag == 'sub' else None
    mode = HarmonicVib(vib_wavenumbers=list(ws), imaginary_substitute=sub)
    U, H, S, Cv, Cp = _relations(ctx, mode, T, 1.0)
    valid = _valid(ws, sub)
    tU = tCv = tS = tlnq = 0.0
    conv = Q(ctx, c.h('J s')) * Q(ctx, c.c('cm/s')) / Q(ctx, c.kb('J/K'))          # theta = h c nu / kB
    for w in valid:
        a, b, s_, q_ = _ho(ctx, w * conv, T)
        tU, tCv, tS, tlnq = tU + a, tCv + b, tS + s_, tlnq + q_
    ctx.eq('U = sum of harmonic oscillators over the valid modes', U, tU)
    ctx.eq('Cv = sum of harmonic oscillators over the valid modes', Cv, tCv)
    ctx.eq('S = sum of harmonic oscillators over the valid modes', S, tS)
    if valid:
        ctx.eq('ln q = sum ln q_HO (with ZPE)', log(ctx, mode.get_q(T=T)), tlnq)
        ctx.eq('q(include_ZPE=False) = q * exp(ZPE/kT)', log(ctx, mode.get_q(T=T, include_ZPE=False)),
               tlnq + sum([w * conv for w in valid][1:], valid[0] * conv) / (2 * T))
    zpe = 0.0
    for w in valid:
        zpe = zpe + Q(ctx, 0.5) * Q(ctx, c.kb('eV/K')) * w * conv
    ctx.eq('ZPE = sum h c nu / 2', mode.get_ZPE(), zpe)


def h_harmonic_setter(ctx):
    """history: re-assigning vib_wavenumbers refreshes the cached vibrational temperatures"""
    from pmutt.statmech.vib import HarmonicVib
    T = ctx.real('T', 50, 5000)
    w0 = ctx.real('w0', 10, 4500)
    w1 = ctx.real('w1', 10, 4500)
    mode = HarmonicVib(vib_wavenumbers=[w0])
    mode.get_UoRT(T=T)
    mode.vib_wavenumbers = [w1]
    fresh = HarmonicVib(vib_wavenumbers=[w1])
    for m in ('get_UoRT', 'get_CvoR', 'get_SoR', 'get_GoRT'):
        ctx.eq('%s after re-assignment = fresh object' % m, call(mode, m, T=T), call(fresh, m, T=T))


def h_qrrho(ctx, k, sym_params=False):
    from pmutt.statmech.vib import QRRHOVib
    from pmutt import constants as c
    import numpy as np
    T = ctx.real('T', 50, 5000)
    ws = [ctx.real('w%d' % i, 10, 4500) for i in range(k)]
    Bav = ctx.real('Bav', 1e-46, 1e-42) if sym_params else 1e-44
    v0 = ctx.real('v0', 10, 500) if sym_params else 100.
    mode = QRRHOVib(vib_wavenumbers=np_array(ctx, ws), Bav=Bav, v0=v0, alpha=4)
    U, H, S, Cv, Cp = _relations(ctx, mode, T, 1.0)
    conv = Q(ctx, c.h('J s')) * Q(ctx, c.c('cm/s')) / Q(ctx, c.kb('J/K'))
    tU = tCv = tS = 0.0
    for w in ws:
        wt = 1 / (1 + (v0 / w)**4)                       # Grimme damping function
        mu = c.h('J s') / (8 * 3.141592653589793**2 * w * c.c('cm/s'))
        mu_eff = mu * Bav / (mu + Bav)
        a, b, s_, _ = _ho(ctx, w * conv, T)
        S_rot = 0.5 + 0.5 * log(ctx, 8 * 3.141592653589793**3 * mu_eff * c.kb('J/K') * T / c.h('J s')**2)
        tU = tU + wt * a + (1 - wt) * 0.5
        tCv = tCv + wt * b + (1 - wt) * 0.5
        tS = tS + wt * s_ + (1 - wt) * S_rot
    ctx.eq('U = quasi-RRHO interpolation', U, tU)
    ctx.eq('Cv = quasi-RRHO interpolation', Cv, tCv)
    ctx.eq('S = quasi-RRHO interpolation (Grimme)', S, tS, tol=1e-9)


def h_einstein(ctx):
    from pmutt.statmech.vib import EinsteinVib
    from pmutt import constants as c
    T = ctx.real('T', 50, 5000)
    th = ctx.real('theta_E', 50, 2000)
    u = ctx.real('u', -100, 100)
    mode = EinsteinVib(einstein_temperature=th, interaction_energy=u)
    U, H, S, Cv, Cp = _relations(ctx, mode, T, 1.0)
    a, b, s_, _ = _ho(ctx, th, T)
    ctx.eq('U = u/kT + 3 U_HO(theta_E)', U, u / (c.kb('eV/K') * T) + 3 * a)
    ctx.eq('Cv = 3 Cv_HO(theta_E)', Cv, 3 * b)
    ctx.eq('S = 3 S_HO(theta_E)', S, 3 * s_)


def h_debye(ctx):
    """Debye crystal through the quad stub: integrands vs textbook, outer algebra, algebraic relations"""
    import pmutt.statmech.vib as vib
    from pmutt import constants as c
    T = ctx.real('T', 50, 5000)
    th = ctx.real('theta_D', 50, 2000)
    u = ctx.real('u', -100, 100)
    mode = vib.DebyeVib(debye_temperature=th, interaction_energy=u)
    x = ctx.real('x', 1e-3, 140)
    e = exp(ctx, -x)
    # textbook Debye integrands  (U: x^3/(e^x-1);  Cv: x^4 e^x/(e^x-1)^2;  ln(1-e^-x) x^2 for the free energy)
    ctx.eq('energy integrand = x^3/(e^x - 1)', mode._F_integrand(x), x**3 * e / (1 - e))
    ctx.eq('heat-capacity integrand = x^4 e^x/(e^x - 1)^2', mode._K_integrand(x), x**4 * e / (1 - e)**2)
    ctx.eq('free-energy integrand = x^2 ln(1 - e^-x)', mode._G_integrand(x), x**2 * log(ctx, 1 - e))
    if ctx.is_sym():
        from symx import expr as X
        from symx.proxy import Sym, lift
        saved = vib.quad
        recorded = []

        def quad(func, a, b, **kw):
            xv = Sym(X.var('quad_x'))
            f = lift(func(xv))
            recorded.append(f)
            return [Sym(X.integral(X.to_real(f), 'quad_x', X.to_real(lift(a)), X.to_real(lift(b)))), 0.0]
        vib.quad = quad
        try:
            y = th / T
            IF = mode._get_intermediate_fn(T=T, fn=mode._F_integrand) * y**3 / 3
            IG = mode._get_intermediate_fn(T=T, fn=mode._G_integrand) * y**3 / 3
            IK = mode._get_intermediate_fn(T=T, fn=mode._K_integrand) * y**3 / 3
            D = lambda I: 3 * I / y**3
            zpe = u + 9 / 8 * c.kb('eV/K') * th
            ctx.eq('U = (u + 9/8 k theta)/kT + 3 D_F(theta/T)', mode.get_UoRT(T=T), zpe / (c.kb('eV/K') * T) + 3 * D(IF))
            ctx.eq('Cv = 3 D_K(theta/T)', mode.get_CvoR(T=T), 3 * D(IK))
            ctx.eq('S = 3 (D_F - D_G)', mode.get_SoR(T=T), 3 * (D(IF) - D(IG)))
            ctx.eq('H = U', mode.get_HoRT(T=T), mode.get_UoRT(T=T))
            ctx.eq('G = H - TS', mode.get_GoRT(T=T), mode.get_HoRT(T=T) - mode.get_SoR(T=T))
            ctx.eq('F = U - TS', mode.get_FoRT(T=T), mode.get_UoRT(T=T) - mode.get_SoR(T=T))
            ctx.eq('Cp = Cv', mode.get_CpoR(T=T), mode.get_CvoR(T=T))
        finally:
            vib.quad = saved
    else:
        for lab in ('U = (u + 9/8 k theta)/kT + 3 D_F(theta/T)', 'Cv = 3 D_K(theta/T)', 'S = 3 (D_F - D_G)', 'H = U', 'G = H - TS',
                    'F = U - TS', 'Cp = Cv'):
            ctx.eq(lab, 0.0, 0.0)


# ------------------------------------------------------------------------------ rotation
def h_rotor(ctx, geometry):
    from pmutt.statmech.rot import RigidRotor
    T = ctx.real('T', 50, 5000)
    sigma = ctx.real('sigma', 1, 60)
    if geometry == 'monatomic':
        rt = [0.0]
    elif geometry == 'linear':
        rt = [ctx.real('theta_rot0', 0.01, 100)]
    else:
        rt = [ctx.real('theta_rot%d' % i, 0.01, 100) for i in range(3)]
    mode = RigidRotor(symmetrynumber=sigma, rot_temperatures=list(rt), geometry=geometry)
    U, H, S, Cv, Cp = _relations(ctx, mode, T, 1.0)
    if geometry == 'monatomic':
        for nm, v in (('U', U), ('S', S), ('Cv', Cv)):
            ctx.eq('%s = 0 (no rotation)' % nm, v, 0.0)
        return
    if geometry == 'linear':
        lnq = log(ctx, T) - log(ctx, sigma) - log(ctx, rt[0])
        dof = 1.0
    else:
        lnq = 0.5 * log(ctx, 3.141592653589793) - log(ctx, sigma) + 1.5 * log(ctx, T) - 0.5 * (log(ctx, rt[0]) + log(ctx, rt[1]) + log(ctx, rt[2]))
        dof = 1.5
    ctx.eq('U = (rotational degrees of freedom)/2 RT', U, dof)
    ctx.eq('Cv = (rotational degrees of freedom)/2 R', Cv, dof)
    ctx.eq('ln q = rigid-rotor partition function', log(ctx, mode.get_q(T=T)), lnq, tol=1e-9)
    ctx.eq('S = ln q + U', S, lnq + dof, tol=1e-9)


POINT_GROUPS = {'C1': 1, 'Cs': 1, 'C2': 2, 'C2v': 2, 'C3v': 3, 'Cinfv': 1, 'D2h': 4, 'D3h': 6, 'D5h': 10, 'Dinfh': 2, 'D3d': 6,
                'Td': 12, 'Oh': 24}


def h_point_groups(ctx):
    """every documented point-group label is accepted and means its textbook symmetry number"""
    from pmutt.statmech.rot import RigidRotor
    T = ctx.real('T', 50, 5000)
    th = ctx.real('theta_rot', 0.01, 100)
    for label, sigma in POINT_GROUPS.items():
        try:
            mode = RigidRotor(symmetrynumber=label, rot_temperatures=[th], geometry='linear')
        except ValueError:
            ctx.fail('point group %s accepted' % label)
            continue
        ctx.true('point group %s accepted' % label, True)
        ref = RigidRotor(symmetrynumber=sigma, rot_temperatures=[th], geometry='linear')
        ctx.eq('point group %s = symmetry number %d' % (label, sigma), mode.get_SoR(T=T), ref.get_SoR(T=T))
    try:
        RigidRotor(symmetrynumber='Q7', rot_temperatures=[th], geometry='linear')
    except ValueError:
        ctx.true('unknown point group refused', True)
    else:
        ctx.fail('unknown point group refused')


# ------------------------------------------------------------------------------ electronic / nuclear
def h_elec(ctx):
    from pmutt.statmech.elec import GroundStateElec
    from pmutt import constants as c
    T = ctx.real('T', 50, 5000)
    E = ctx.real('E', -100, 100)
    spin = ctx.real('spin', 0, 5)
    mode = GroundStateElec(potentialenergy=E, spin=spin)
    U, H, S, Cv, Cp = _relations(ctx, mode, T, 1.0)
    ctx.eq('U = E/kT', U, E / (c.kb('eV/K') * T))
    ctx.eq('S = ln(2 spin + 1)', S, log(ctx, 2 * spin + 1))
    ctx.eq('Cv = 0', Cv, 0.0)
    mode.spin = spin + 1
    ctx.eq('degeneracy follows a re-assigned spin', mode.get_SoR(), log(ctx, 2 * (spin + 1) + 1))


def h_lsr(ctx, as_elec):
    """linear-scaling electronic energy: a temperature-independent energy, no entropy"""
    from pmutt.statmech.lsr import LSR
    from pmutt.statmech import StatMech
    from pmutt import constants as c
    T = ctx.real('T', 50, 5000)
    slope, icpt = ctx.real('slope', 0, 2), ctx.real('intercept', -50, 50)
    dE, Es, Eg = ctx.real('dE_ref', -100, 100), ctx.real('E_surf', -100, 100), ctx.real('E_gas', -100, 100)
    lsr = LSR(slope=slope, intercept=icpt, reaction=dE, surf_species=Es, gas_species=Eg)
    mode = StatMech(elec_model=lsr) if as_elec else lsr
    U, H, S, Cv, Cp = _relations(ctx, mode, T, 1.0)
    E = slope * dE + icpt + Es + Eg
    # float references are stored as eV per molecule and read back through kB: the round trip kcal/mol -> eV -> kcal/mol is the
    # factor k of the tabulated constants (1 to within their rounding)
    k = c.convert_unit(initial='kcal/mol', final='eV/molecule') * c.R('kcal/mol/K') / c.kb('eV/K')
    ctx.true('kcal/mol -> eV/molecule -> kcal/mol round trip of the constant tables is 1 within 2e-4', abs(k - 1) <= 2e-4)
    ctx.eq('U x RT = slope x dE_ref + intercept + E_surf + E_gas   [kcal/mol]', U * T * c.R('kcal/mol/K'), (slope * dE + Es + Eg) * k + icpt,
           rel=1e-9, tol=1e-9)
    ctx.eq('S = 0', S, 0.0)
    ctx.eq('Cv = 0', Cv, 0.0)
    T2 = ctx.real('T2', 50, 5000)
    ctx.eq('T x H/RT does not depend on T', T * H, T2 * call(mode, 'get_HoRT', T=T2, P=1.0))
    ctx.eq('T x G/RT does not depend on T', T * call(mode, 'get_GoRT', T=T, P=1.0), T2 * call(mode, 'get_GoRT', T=T2, P=1.0))
    ctx.eq('T x F/RT does not depend on T', T * call(mode, 'get_FoRT', T=T, P=1.0), T2 * call(mode, 'get_FoRT', T=T2, P=1.0))


def h_with_references(ctx):
    """a species carrying a real References object: G = H - TS and F = U - TS still hold at any T (the reference
    adjustment enters H and G alike), total = sum of the verbose entries"""
    from checks.c10 import _refs, _species, RefModel, _install_lstsq
    _install_lstsq(ctx)
    T_ref = ctx.real('T_ref', 200, 1500)
    R, refs, models, exps = _refs(ctx, [{'H': 2}, {'O': 2}], 'elements', T_ref, False)
    m = RefModel(ctx, 'target')
    sp = _species(ctx, m, {'H': ctx.real('n_H', 0, 20), 'O': ctx.real('n_O', 0, 20)}, 'elements', R)
    T = ctx.real('T', 50, 5000)
    H, S, G = sp.get_HoRT(T=T), sp.get_SoR(T=T), sp.get_GoRT(T=T)
    ctx.eq('G = H - TS with the reference adjustment included', G, H - S)
    ctx.eq('G = H - TS without it (use_references=False)', sp.get_GoRT(T=T, use_references=False), sp.get_HoRT(T=T, use_references=False) - S)
    ctx.eq('the adjustment of G is the adjustment of H', G - sp.get_GoRT(T=T, use_references=False), H - sp.get_HoRT(T=T, use_references=False))
    for q in ('HoRT', 'GoRT'):
        tot = getattr(sp, 'get_' + q)(T=T)
        parts = getattr(sp, 'get_' + q)(T=T, verbose=True)
        acc = 0
        for x in parts:
            acc = acc + x
        ctx.eq('%s total = sum of the verbose entries (references entry included)' % q, tot, acc)


def h_integer_wavenumbers(ctx):
    """wavenumbers given as Python / NumPy integers with an imaginary mode and a fractional substitute behave as the same
    numbers given as floats"""
    import numpy
    from pmutt.statmech.vib import HarmonicVib
    sub = ctx.real('imaginary_substitute', 10.25, 99.75)
    T = ctx.real('T', 50, 5000)
    for label, w in (('list of int', [-100, 1500]), ('int64 array', numpy.array([-100, 1500])), ('tuple of int', (-100, 1500))):
        a = HarmonicVib(vib_wavenumbers=w, imaginary_substitute=sub)
        b = HarmonicVib(vib_wavenumbers=[-100., 1500.], imaginary_substitute=sub)
        for q in ('get_UoRT', 'get_SoR', 'get_CvoR'):
            ctx.eq('%s: %s as for float wavenumbers' % (label, q), getattr(a, q)(T=T), getattr(b, q)(T=T))


def h_empty(ctx):
    from pmutt.statmech import EmptyMode, ConstantMode
    from pmutt.statmech.nucl import EmptyNucl
    T = ctx.real('T', 50, 5000)
    for mode, nm in ((EmptyMode(), 'EmptyMode'), (EmptyNucl(), 'EmptyNucl')):
        for m in ('get_CvoR', 'get_CpoR', 'get_UoRT', 'get_HoRT', 'get_SoR', 'get_FoRT', 'get_GoRT'):
            ctx.eq('%s.%s = 0' % (nm, m), call(mode, m, T=T), 0.0)
        ctx.eq('%s.get_q = 1' % nm, call(mode, 'get_q', T=T), 1.0)
    from pmutt import constants as c
    vals = {k: ctx.real('const_' + k, -10, 10) for k in ('q', 'Cv', 'Cp', 'U', 'H', 'S', 'F', 'G')}
    mode = ConstantMode(**vals)
    R = c.R('eV/K')
    ctx.eq('ConstantMode.get_q returns the user value', call(mode, 'get_q', T=T), vals['q'])
    for k in ('Cv', 'Cp', 'S'):
        ctx.eq('ConstantMode.get_%soR = user value / R' % k, call(mode, 'get_%soR' % k, T=T), vals[k] / R)
    for k in ('U', 'H', 'F', 'G'):
        ctx.eq('ConstantMode.get_%soRT = user value / RT' % k, call(mode, 'get_%soRT' % k, T=T), vals[k] / R / T)


# ------------------------------------------------------------------------------ aggregation
class StubMode:
    """mode whose every getter is affine in the T and P it receives"""
    def __init__(self, ctx, name, no_methods=()):
        self.name_ = name
        self.c = {}
        for q in ('q', 'CvoR', 'CpoR', 'UoRT', 'HoRT', 'SoR', 'FoRT', 'GoRT'):
            if q in no_methods:
                continue
            lo, hi = (0.1, 10) if q == 'q' else (-50, 50)
            self.c[q] = [ctx.real('%s.%s.c0' % (name, q), lo, hi), ctx.real('%s.%s.c1' % (name, q), 0, 0.01), ctx.real('%s.%s.c2' % (name, q), 0, 1)]

            def mk(q):
                def getter(T=777.0, P=3.0):
                    c = self.c[q]
                    return c[0] + c[1] * T + c[2] * P
                return getter
            setattr(self, 'get_' + q, mk(q))

    def val(self, q, T, P):
        c = self.c[q]
        return c[0] + c[1] * T + c[2] * P


def h_aggregate(ctx, n_misc, refs, verbose, use_refs):
    from pmutt.statmech import StatMech
    T = ctx.real('T', 50, 5000)
    P = ctx.real('P', 1e-4, 1e3)
    modes = [StubMode(ctx, n) for n in ('trans', 'vib', 'rot', 'elec', 'nucl')]
    misc = [StubMode(ctx, 'misc%d' % i) for i in range(n_misc)]
    ref = None
    if refs:
        ref = StubMode(ctx, 'refs')
        ref.descriptor = 'elements'
        for q in list(ref.c):
            f = getattr(ref, 'get_' + q)

            def mk(f):
                return lambda T=777.0, P=3.0, descriptors=None: f(T=T, P=P)
            setattr(ref, 'get_' + q, mk(f))
    sp = StatMech(name='sp', trans_model=modes[0], vib_model=modes[1], rot_model=modes[2], elec_model=modes[3], nucl_model=modes[4],
                  misc_models=misc or None, references=ref, elements={'H': 2})
    for q in ('q', 'CvoR', 'CpoR', 'UoRT', 'HoRT', 'SoR', 'FoRT', 'GoRT'):
        parts = [m.val(q, T, P) for m in modes]
        unit = 1.0 if q == 'q' else 0.0
        parts.append(ref.val(q, T, P) if (refs and use_refs) else unit)
        parts += [m.val(q, T, P) for m in misc] if misc else [unit]
        got = getattr(sp, 'get_' + q)(T=T, P=P, verbose=verbose, use_references=use_refs)
        if verbose:
            ctx.true('%s verbose: one entry per mode, references, misc model' % q, len(got) == len(parts))
            if len(got) == len(parts):
                for i, pv in enumerate(parts):
                    ctx.eq('%s verbose[%d] is contribution %d in order' % (q, i, i), got[i], pv)
        else:
            tot = parts[0]
            for pv in parts[1:]:
                tot = tot * pv if q == 'q' else tot + pv
            ctx.eq('%s total = %s of the contributions, each once' % (q, 'product' if q == 'q' else 'sum'), got, tot)


def h_missing_method(ctx, raise_error, raise_warning):
    """a mode lacking a getter: error, or default value (+warning)"""
    from pmutt.statmech import StatMech
    import warnings
    T = ctx.real('T', 50, 5000)
    modes = [StubMode(ctx, n, no_methods=('SoR',) if n == 'vib' else ()) for n in ('trans', 'vib', 'rot', 'elec', 'nucl')]
    sp = StatMech(name='sp', trans_model=modes[0], vib_model=modes[1], rot_model=modes[2], elec_model=modes[3], nucl_model=modes[4])
    with warnings.catch_warnings(record=True) as w:
        warnings.simplefilter('always')
        try:
            got = sp.get_SoR(T=T, P=1.0, raise_error=raise_error, raise_warning=raise_warning)
        except AttributeError:
            ctx.true('missing getter raises exactly when raise_error', raise_error)
            return
    ctx.true('missing getter raises exactly when raise_error', not raise_error)
    tot = 0.0
    for m in modes:
        if 'SoR' in m.c:
            tot = tot + m.val('SoR', T, 1.0)
    ctx.eq('missing getter contributes the neutral element', got, tot)
    ctx.true('warning issued exactly when raise_warning', (len([x for x in w if issubclass(x.category, RuntimeWarning)]) > 0) == raise_warning)


def h_species(ctx, preset):
    """end to end on a real StatMech species: the defining relations at species level"""
    from pmutt.statmech import StatMech, trans, vib, rot, elec
    T = ctx.real('T', 50, 5000)
    P = ctx.real('P', 1e-4, 1e3)
    w = [ctx.real('w%d' % i, 10, 4500) for i in range(1)]
    E = ctx.real('E', -100, 100)
    kw = dict(vib_model=vib.HarmonicVib(vib_wavenumbers=list(w)), elec_model=elec.GroundStateElec(potentialenergy=E, spin=ctx.real('spin', 0, 3)))
    if preset == 'idealgas':
        kw['trans_model'] = trans.FreeTrans(n_degrees=3, molecular_weight=ctx.real('M', 1, 500))
        kw['rot_model'] = rot.RigidRotor(symmetrynumber=ctx.real('sigma', 1, 24), geometry='nonlinear',
                                         rot_temperatures=[ctx.real('tr%d' % i, 0.01, 100) for i in range(3)])
    sp = StatMech(name='sp', **kw)
    g = lambda n, t=T, p=P, **a: getattr(sp, n)(T=t, P=p, **a)
    ctx.eq('G = H - TS', g('get_GoRT'), g('get_HoRT') - g('get_SoR'))
    ctx.eq('F = U - TS', g('get_FoRT'), g('get_UoRT') - g('get_SoR'))
    ctx.eq('H - U', g('get_HoRT') - g('get_UoRT'), 1.0 if preset == 'idealgas' else 0.0)
    ctx.eq('Cv = dU/dT', ctx.deriv(lambda t: t * g('get_UoRT', t), T), g('get_CvoR'), info='deriv')
    ctx.eq('Cp = dH/dT', ctx.deriv(lambda t: t * g('get_HoRT', t), T), g('get_CpoR'), info='deriv')
    ctx.eq('dS/dT = Cp/T', ctx.deriv(lambda t: g('get_SoR', t), T), g('get_CpoR') / T, info='deriv')
    if preset == 'idealgas':
        ctx.eq('dS/dP = -1/P', ctx.deriv(lambda p: g('get_SoR', T, p), P), -1 / P, info='deriv')
    for q in ('CvoR', 'UoRT', 'HoRT', 'SoR', 'GoRT'):
        v = g('get_' + q, verbose=True)
        tot = v[0]
        for x in v[1:]:
            tot = tot + x
        ctx.eq('%s total = sum of the verbose contributions' % q, g('get_' + q), tot)


# ------------------------------------------------------------------------------ geometry decision
class StubAtoms:
    """stands for an ASE Atoms object: only len() and get_angle(i, j, k) (angle at the middle atom,
    degrees) are used by get_geometry_from_atoms; angles are symbolic"""
    def __init__(self, n, angle):
        self.n = n
        self.angle = angle
        self.asked = []

    def __len__(self):
        return self.n

    def get_angle(self, i, j, k):
        self.asked.append((i, j, k))
        return self.angle[(j, frozenset((i, k)))]


def h_linearity(ctx, n, perm):
    """the linear / nonlinear decision depends only on whether some atom triple is non-collinear,
    not on which triple comes first (atom order `perm`)"""
    import itertools
    from pmutt.statmech.rot import get_geometry_from_atoms
    tol = 5.0
    angle = {}
    for tri in itertools.combinations(range(n), 3):
        vs = []
        for j in tri:
            others = frozenset(x for x in tri if x != j)
            a = ctx.real('angle_%d_at_%d' % (sum(1 << x for x in tri), j), 0, 180)
            angle[(j, others)] = a
            vs.append(a)
        # geometric consistency of one triple: collinear (every angle within tol of 0 or 180) or a proper
        # triangle (every angle farther than tol from both)
        # (a 0.01 degree band around the tolerance is excluded: np.isclose adds rtol*180 there)
        deg = [((v <= tol) | (v >= 180 - tol)) for v in vs]
        prop = [((v >= tol + 0.01) & (v <= 180 - tol - 0.01)) for v in vs]
        ctx.assume((deg[0] & deg[1] & deg[2]) | (prop[0] & prop[1] & prop[2]))
    permuted = {}
    for (j, oth), a in angle.items():
        permuted[(perm[j], frozenset(perm[x] for x in oth))] = a
    got = get_geometry_from_atoms(StubAtoms(n, permuted), degree_tol=tol)
    some_triangle = None
    for tri in itertools.combinations(range(n), 3):
        v = angle[(tri[1], frozenset((tri[0], tri[2])))]
        t = (v >= tol + 0.01) & (v <= 180 - tol - 0.01)
        some_triangle = t if some_triangle is None else (some_triangle | t)
    if got == 'nonlinear':
        ctx.true('nonlinear only if some atom triple is a proper triangle', some_triangle)
    elif got == 'linear':
        ctx.true('linear only if every atom triple is collinear', NOT(some_triangle))
    else:
        ctx.fail('geometry of %d atoms is linear or nonlinear' % n)


def h_small_geometry(ctx):
    from pmutt.statmech.rot import get_geometry_from_atoms
    ctx.true('one atom is monatomic', get_geometry_from_atoms(StubAtoms(1, {})) == 'monatomic')
    ctx.true('two atoms are linear', get_geometry_from_atoms(StubAtoms(2, {})) == 'linear')


def groups(tier):
    th = tier == 'thorough'
    g = []
    g.append(dict(name='geometry/1-2 atoms', harness=h_small_geometry, no_validate=True))
    import itertools as _it
    for n in ((3, 4, 5) if th else (3, 4)):
        perms = list(_it.permutations(range(n)))
        pick = perms if (n == 3 or (th and n == 4)) else [perms[0], perms[-1], perms[len(perms) // 2], perms[7 % len(perms)]]
        for pm in pick:
            g.append(dict(name='geometry/linearity-decision/%d atoms/order=%s' % (n, ''.join(map(str, pm))), harness=h_linearity,
                          params=dict(n=n, perm=list(pm)), no_validate=True, max_paths=3000))
    for n in (1, 2, 3):
        g.append(dict(name='FreeTrans/n%d' % n, harness=h_trans, params=dict(n=n)))
    for k in ((1, 2, 3) if th else (1, 2)):
        g.append(dict(name='HarmonicVib/%dmodes' % k, harness=h_harmonic, params=dict(k=k, imag=None), timeout_ms=120000))
    for k in ((1, 2, 3) if th else (1, 2)):
        for imag in ('drop', 'sub'):
            g.append(dict(name='HarmonicVib/%dmodes/imaginary-%s' % (k, imag), harness=h_harmonic, params=dict(k=k, imag=imag), timeout_ms=120000))
    g.append(dict(name='HarmonicVib/reassign-wavenumbers', harness=h_harmonic_setter))
    for k in ((1, 2) if th else (1,)):
        g.append(dict(name='QRRHOVib/%dmodes' % k, harness=h_qrrho, params=dict(k=k), timeout_ms=20000))
    if th:
        g.append(dict(name='QRRHOVib/1mode/symbolic-Bav-v0', harness=h_qrrho, params=dict(k=1, sym_params=True), timeout_ms=600000))
    g.append(dict(name='EinsteinVib', harness=h_einstein))
    g.append(dict(name='DebyeVib', harness=h_debye, no_validate=True))
    for geo in ('monatomic', 'linear', 'nonlinear'):
        g.append(dict(name='RigidRotor/%s' % geo, harness=h_rotor, params=dict(geometry=geo)))
    g.append(dict(name='RigidRotor/point-groups', harness=h_point_groups))
    g.append(dict(name='GroundStateElec', harness=h_elec))
    g.append(dict(name='LSR/mode', harness=h_lsr, params=dict(as_elec=False)))
    g.append(dict(name='LSR/as-electronic-model-of-a-species', harness=h_lsr, params=dict(as_elec=True)))
    g.append(dict(name='StatMech/with-References', harness=h_with_references))
    g.append(dict(name='HarmonicVib/integer-wavenumbers', harness=h_integer_wavenumbers, timeout_ms=120000))
    g.append(dict(name='Empty+Constant modes', harness=h_empty))
    for n_misc in (0, 1, 2):
        for refs in (False, True):
            for verbose in (False, True):
                for use_refs in (True, False):
                    if not refs and not use_refs and n_misc:
                        continue
                    g.append(dict(name='StatMech/aggregate/misc%d/refs=%s/verbose=%s/use_references=%s' % (n_misc, refs, verbose, use_refs),
                                  harness=h_aggregate, params=dict(n_misc=n_misc, refs=refs, verbose=verbose, use_refs=use_refs)))
    for re_ in (True, False):
        for rw in (True, False):
            g.append(dict(name='StatMech/missing-getter/raise_error=%s/raise_warning=%s' % (re_, rw), harness=h_missing_method,
                          params=dict(raise_error=re_, raise_warning=rw)))
    g.append(dict(name='StatMech/species/harmonic', harness=h_species, params=dict(preset='harmonic'), timeout_ms=120000))
    g.append(dict(name='StatMech/species/idealgas', harness=h_species, params=dict(preset='idealgas'), timeout_ms=120000))
    return g
