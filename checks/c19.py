"""C19  Phase diagrams and energy spans select the true extrema."""
from checks.common import *
from checks.stubs import StubSpecies, ref_val

META = dict(
    functions=['pmutt.reaction.phasediagram.PhaseDiagram.__init__/get_GoRT_1D/get_GoRT_2D', 'pmutt.reaction.Reactions.get_E_span',
               'pmutt.reaction.Reaction.get_delta_GoRT/get_G_state (through real Reaction objects on stub species)'],
    bounds=dict(quick='1-3 formation reactions x 1-3 grid values (2-D: up to 2x2), scan variable T or P, norm factors symbolic in [0.1,10] '
                      'or default, with and without energy units; energy span: sequences of 1-2 steps (3-5 states) with/without '
                      'transition states; all species Gibbs energies affine in T,P with symbolic coefficients',
                thorough='up to 3 reactions x 3 grid values in 2-D 2x3; energy span up to 3 steps (7 states)'),
    outside_claim=['grids larger than 3 values per axis / more than 3 reactions (each grid point is decided independently by the code)',
                   'NaN entries (reals only)', 'per-species pressure scan variables', 'Network.get_E_span (networkx graph construction)'],
    stubs=['species = StubSpecies (getter protocol)'],
    assumptions=[],
)


def _reactions(ctx, n):
    from pmutt.reaction import Reaction
    rx, parts = [], []
    for i in range(n):
        a = StubSpecies(ctx, 'R%d' % i, quantities=['GoRT'])
        b = StubSpecies(ctx, 'P%d' % i, quantities=['GoRT'])
        rx.append(Reaction(reactants=[a], reactants_stoich=[1.], products=[b], products_stoich=[1.]))
        parts.append((a, b))
    return rx, parts


def _dG(parts, i, T, P):
    a, b = parts[i]
    return ref_val(b, 'GoRT', T, P) - ref_val(a, 'GoRT', T, P)


def _grid(ctx, name, n, lo, hi):
    return [ctx.real('%s%d' % (name, j), lo, hi) for j in range(n)]


def _check_stable(ctx, table_col, stable, n, tag):
    """stable (concrete int after the forks) attains the column minimum"""
    ok_index = (stable == int(stable)) and 0 <= int(stable) < n
    ctx.true('%s stable phase is a valid reaction index' % tag, bool(ok_index))
    if not ok_index:
        return
    s = int(stable)
    for i in range(n):
        ctx.true('%s stable phase has the lowest normalised G (vs reaction %d)' % (tag, i), table_col[s] <= table_col[i])


def h_1d(ctx, n, m, scan, units, norm):
    from pmutt.reaction.phasediagram import PhaseDiagram
    from pmutt import constants as c
    rx, parts = _reactions(ctx, n)
    nf = [ctx.real('norm%d' % i, 0.1, 10) for i in range(n)] if norm else None
    pd = PhaseDiagram(reactions=rx, norm_factors=nf)
    if scan == 'T':
        xs = _grid(ctx, 'T', m, 50, 5000)
        P = ctx.real('P', 1e-4, 1e3)
        table, stable = pd.get_GoRT_1D(x_name='T', x_values=list(xs), G_units=units, P=P)
        cond = [(x, P) for x in xs]
    else:
        xs = _grid(ctx, 'P', m, 1e-4, 1e3)
        T = ctx.real('T', 50, 5000)
        table, stable = pd.get_GoRT_1D(x_name='P', x_values=list(xs), G_units=units, T=T)
        cond = [(T, x) for x in xs]
    ctx.true('table has one row per reaction and one column per grid value', tuple(table.shape) == (n, m))
    ctx.true('one stable phase per grid point', len(stable) == m)
    for i in range(n):
        for j, (T_, P_) in enumerate(cond):
            want = _dG(parts, i, T_, P_) / (nf[i] if norm else 1.0)
            if units:
                want = want * c.R(units + '/K') * T_
            ctx.eq('table[%d,%d] = reaction value / norm%s' % (i, j, ' * R T' if units else ''), table[i, j], want)
    if len(stable) == m:
        for j in range(m):
            _check_stable(ctx, [table[i, j] for i in range(n)], stable[j], n, 'grid point %d:' % j)


def h_2d(ctx, n, m1, m2, units, norm, order='TP'):
    """order: which quantity runs along the first / second grid axis"""
    from pmutt.reaction.phasediagram import PhaseDiagram
    from pmutt import constants as c
    rx, parts = _reactions(ctx, n)
    nf = [ctx.real('norm%d' % i, 0.1, 10) for i in range(n)] if norm else None
    pd = PhaseDiagram(reactions=rx, norm_factors=nf)
    if order == 'TP':
        Ts = _grid(ctx, 'T', m1, 50, 5000)
        Ps = _grid(ctx, 'P', m2, 1e-4, 1e3)
        table, stable = pd.get_GoRT_2D(x1_name='T', x1_values=list(Ts), x2_name='P', x2_values=list(Ps), G_units=units)
    else:
        Ps = _grid(ctx, 'P', m1, 1e-4, 1e3)
        Ts = _grid(ctx, 'T', m2, 50, 5000)
        table, stable = pd.get_GoRT_2D(x1_name='P', x1_values=list(Ps), x2_name='T', x2_values=list(Ts), G_units=units)
    ctx.true('table shape (reactions, n1, n2)', tuple(table.shape) == (n, m1, m2))
    ctx.true('stable phases shape (n1, n2)', tuple(stable.shape) == (m1, m2))
    for i in range(n):
        for j in range(m1):
            for k in range(m2):
                T_, P_ = (Ts[j], Ps[k]) if order == 'TP' else (Ts[k], Ps[j])
                want = _dG(parts, i, T_, P_) / (nf[i] if norm else 1.0)
                if units:
                    want = want * c.R(units + '/K') * T_
                ctx.eq('table[%d,%d,%d] = reaction value / norm%s' % (i, j, k, ' * R T at that grid point' if units else ''), table[i, j, k], want)
    if tuple(stable.shape) == (m1, m2):
        for j in range(m1):
            for k in range(m2):
                _check_stable(ctx, [table[i, j, k] for i in range(n)], stable[j, k], n, 'grid point (%d,%d):' % (j, k))


def h_1d_vs_2d(ctx, n, m, units):
    """a 2-D scan with a single value on the second axis reports the same phases as the 1-D scan"""
    from pmutt.reaction.phasediagram import PhaseDiagram
    rx, parts = _reactions(ctx, n)
    nf = [ctx.real('norm%d' % i, 0.1, 10) for i in range(n)]
    pd = PhaseDiagram(reactions=rx, norm_factors=nf)
    Ts = _grid(ctx, 'T', m, 50, 5000)
    P = ctx.real('P', 1e-4, 1e3)
    t1, s1 = pd.get_GoRT_1D(x_name='T', x_values=list(Ts), G_units=units, P=P)
    t2, s2 = pd.get_GoRT_2D(x1_name='T', x1_values=list(Ts), x2_name='P', x2_values=[P], G_units=units)
    ctx.true('same number of grid points', len(s1) == m and tuple(s2.shape) == (m, 1))
    if len(s1) == m and tuple(s2.shape) == (m, 1):
        for j in range(m):
            ctx.true('1-D and 2-D agree on the stable phase at grid point %d' % j, int(s1[j]) == int(s2[j, 0]))
            for i in range(n):
                ctx.eq('1-D and 2-D tables agree [%d,%d]' % (i, j), t1[i, j], t2[i, j, 0])


# ----------------------------------------------------------------------------- energy span
def _first_extreme(vals, greater):
    bi = 0
    for i in range(1, len(vals)):
        if (vals[i] > vals[bi]) if greater else (vals[i] < vals[bi]):
            bi = i
    return bi


def h_span(ctx, ts_flags, units, chain=False):
    """ts_flags: per step, whether it has a transition state; chain: every step starts from the product species of the step
    before it, taken with its own (symbolic) stoichiometric coefficient, so consecutive states share species but not values"""
    from pmutt.reaction import Reaction, Reactions
    from pmutt import constants as c
    T = ctx.real('T', 50, 5000)
    P = ctx.real('P', 1e-4, 1e3)
    rx, G = [], []
    RT = c.R(units + '/K') * T
    prev = None
    for i, ts in enumerate(ts_flags):
        a = prev if (chain and prev is not None) else StubSpecies(ctx, 'R%d' % i, quantities=['GoRT'])
        nu = ctx.real('nu%d' % i, 0.25, 4) if (chain and prev is not None) else 1.
        b = StubSpecies(ctx, 'P%d' % i, quantities=['GoRT'])
        prev = b
        t = StubSpecies(ctx, 'TS%d' % i, quantities=['GoRT']) if ts else None
        rx.append(Reaction(reactants=[a], reactants_stoich=[nu], products=[b], products_stoich=[1.],
                           transition_state=[t] if ts else None, transition_state_stoich=[1.] if ts else None))
        G.append(nu * ref_val(a, 'GoRT', T, P) * RT)
        if ts:
            G.append(ref_val(t, 'GoRT', T, P) * RT)
        G.append(ref_val(b, 'GoRT', T, P) * RT)
    got = Reactions(reactions=rx).get_E_span(units=units, T=T, P=P)
    hi = _first_extreme(G, True)
    lo = _first_extreme(G, False)
    want = G[hi] - G[lo]
    if hi < lo:
        want = want + (G[-1] - G[0])
    ctx.eq('E_span = highest - lowest (+ overall dG when highest precedes lowest)', got, want)
    for g in G:
        ctx.true('span >= every (state - lowest) when no wrap term', (got >= g - G[lo]) | (hi < lo))


class GStub(StubSpecies):
    """stub species that also reports G with units (= G/RT x R x T), as the network getter asks for"""
    def get_G(self, units, T=1234.5, P=7.0, **kwargs):
        from pmutt import constants as c
        return self.get_GoRT(T=T, P=P) * c.R(units + '/K') * T


def h_network_span(ctx, ts_flags, units):
    """Network.get_E_span along the path  R0 -> [TS0] -> P0 = R1 -> [TS1] -> P1 ...  (consecutive steps share a state)"""
    from pmutt.reaction import Reaction
    from pmutt.reaction.network import Network, state_to_set
    from pmutt import constants as c
    T = ctx.real('T', 50, 5000)
    P = ctx.real('P', 1e-4, 1e3)
    RT = (c.R(units + '/K') * T) if units else 1.0
    sp = [GStub(ctx, 'S%d' % i, quantities=['GoRT']) for i in range(len(ts_flags) + 1)]
    rx, path, G = [], [], []
    for i, ts in enumerate(ts_flags):
        t = GStub(ctx, 'TS%d' % i, quantities=['GoRT']) if ts else None
        rx.append(Reaction(reactants=[sp[i]], reactants_stoich=[1.], products=[sp[i + 1]], products_stoich=[1.],
                           transition_state=[t] if ts else None, transition_state_stoich=[1.] if ts else None))
        if i == 0:
            path.append(state_to_set([sp[0]], [1.]))
            G.append(ref_val(sp[0], 'GoRT', T, P) * RT)
        if ts:
            path.append(state_to_set([t], [1.]))
            G.append(ref_val(t, 'GoRT', T, P) * RT)
        path.append(state_to_set([sp[i + 1]], [1.]))
        G.append(ref_val(sp[i + 1], 'GoRT', T, P) * RT)
    net = Network(reactions=rx)
    got = net.get_E_span(path=path, units=units, T=T, P=P)
    hi = _first_extreme(G, True)
    lo = _first_extreme(G, False)
    want = G[hi] - G[lo]
    if hi < lo:
        want = want + (G[-1] - G[0])
    ctx.eq('network E_span = highest - lowest (+ overall dG when highest precedes lowest)', got, want)
    # a second query on the same network at another pressure is evaluated at that pressure (single-step paths only:
    # the arg-min / arg-max forks of two queries multiply)
    if len(ts_flags) > 1:
        return
    P2 = ctx.real('P_second_query', 1e-4, 1e3)
    G2 = []
    for i, ts in enumerate(ts_flags):
        if i == 0:
            G2.append(ref_val(sp[0], 'GoRT', T, P2) * RT)
        if ts:
            G2.append(ref_val(rx[i].transition_state[0], 'GoRT', T, P2) * RT)
        G2.append(ref_val(sp[i + 1], 'GoRT', T, P2) * RT)
    hi2, lo2 = _first_extreme(G2, True), _first_extreme(G2, False)
    want2 = G2[hi2] - G2[lo2]
    if hi2 < lo2:
        want2 = want2 + (G2[-1] - G2[0])
    ctx.eq('network E_span, second query at another pressure', net.get_E_span(path=path, units=units, T=T, P=P2), want2)


def groups(tier):
    th = tier == 'thorough'
    g = []
    for fl in ([(False,), (True,), (True, False)] + ([(False, False), (True, True)] if th else [])):
        for units in (None, 'eV'):
            g.append(dict(name='network-E_span/steps=%s/units=%s' % (''.join('T' if f else 'n' for f in fl), units), harness=h_network_span,
                          params=dict(ts_flags=fl, units=units), max_paths=20000))
    for n in (1, 2, 3):
        for m in (1, 2, 3):
            if not th and n * m > 6:
                continue
            for scan in ('T', 'P'):
                for units in (None, 'kJ/mol'):
                    for norm in (True, False):
                        if not th and (scan == 'P' and units and not norm):
                            continue
                        if not th and n == 1 and m > 1 and scan == 'P':
                            continue
                        g.append(dict(name='1D/%dx%d/scan=%s/units=%s/norm=%s' % (n, m, scan, units, norm), harness=h_1d,
                                      params=dict(n=n, m=m, scan=scan, units=units, norm=norm), max_paths=3000))
    shapes2 = [(1, 1, 1), (2, 2, 1), (2, 1, 2), (2, 2, 2), (3, 1, 2)] + ([(2, 2, 3)] if th else [])       # (3,2,2): 30 min, (3,2,3): > 1 h per group - outside the thorough tier
    for (n, m1, m2) in shapes2:
        for units in (None, 'eV'):
            g.append(dict(name='2D/%dx%dx%d/units=%s' % (n, m1, m2, units), harness=h_2d,
                          params=dict(n=n, m1=m1, m2=m2, units=units, norm=True), max_paths=5000))
    for (n, m1, m2) in ((1, 1, 2), (2, 2, 2)):
        for units in (None, 'eV'):
            g.append(dict(name='2D/%dx%dx%d/units=%s/T-on-second-axis' % (n, m1, m2, units), harness=h_2d,
                          params=dict(n=n, m1=m1, m2=m2, units=units, norm=True, order='PT'), max_paths=5000))
    g.append(dict(name='2D/2x2x2/default-norm', harness=h_2d, params=dict(n=2, m1=2, m2=2, units=None, norm=False), max_paths=3000))
    for (n, m) in ((2, 2), (3, 2), (2, 3)) if not th else ((2, 2), (3, 2), (2, 3), (3, 3)):
        g.append(dict(name='1D-vs-2D/%dx%d' % (n, m), harness=h_1d_vs_2d, params=dict(n=n, m=m, units=None), max_paths=5000))
    spans = [(False,), (True,), (False, False), (True, False), (False, True)]
    if th:
        spans += [(True, True), (True, False, True), (False, False, False)]
    for fl in spans:
        g.append(dict(name='E_span/steps=%s' % ''.join('T' if f else 'n' for f in fl), harness=h_span,
                      params=dict(ts_flags=fl, units='kJ/mol'), max_paths=20000))
    for fl in ([(False, False), (True, False)] + ([(False, True), (False, False, False)] if th else [])):
        g.append(dict(name='E_span/chained-steps=%s' % ''.join('T' if f else 'n' for f in fl), harness=h_span,
                      params=dict(ts_flags=fl, units='kJ/mol', chain=True), max_paths=20000))
    for x in g:
        x['quotient_vars'] = True
    return g
