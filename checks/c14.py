"""C14  Reaction strings print and parse as inverses; the balance check is exact."""
from checks.common import *

USES_STRINGS = True

META = dict(
    functions=['pmutt.reaction._write_reaction_state', 'Reaction.to_string', 'pmutt.reaction._parse_reaction_state/_parse_reaction',
               'Reaction.from_string', 'Reaction.check_element_balance', 'pmutt.reaction._count_elements', 'pmutt.parse_formula'],
    bounds=dict(quick='species names of 1-3 symbolic characters (first a letter, then letters/digits/()*_), 1-2 species per side, optional '
                      'transition state; printed coefficients symbolic reals in [0.25,4] for every stoich_format in {.2f,.3f,.1f}, stoich_space '
                      'on/off, delimiters + = <=> . >> and a custom pair; parsed coefficients as symbolic digit strings d, dd, d.d, d., d.dd or '
                      'omitted, 0-1 blanks around; element balance with symbolic counts [0,10] and stoichiometry [0.25,4] over 1-2 elements; '
                      'formulas of 1-3 element groups (symbol of 1-2 symbolic letters, count of 0-3 symbolic digits); print-rounded groups: 19 concrete '
                      'boundary coefficients (values that round across a digit or to a whole number: 0.996, 2.999, 9.6, 9.96, 99.5, ...) through the '
                      'real CPython formatter for .0f/.1f/.2f/.3f with a symbolic 2-character name - the printed digits themselves are checked',
                thorough='3 species per side; names up to 4 characters; formulas of 4 groups'),
    outside_claim=['print->parse composition relies on the CPython formatter contract: "{:.Nf}".format(v) is a decimal literal of value '
                   'within half a unit of its last place of v (the printer and the parser are each decided against that contract)',
                   'negative / zero coefficients (Counter drops non-positive totals)', 'pmutt.io.ring.read_reactions beyond its call of from_string'],
    stubs=[],
    assumptions=['symbolic characters restricted to the stated alphabets'],
)

LETTER = [(65, 90), (97, 122)]
NAMECH = [(48, 57), (65, 90), (97, 122), (40, 42), (95, 95)]        # digits letters ( ) * _
DIGIT = [(48, 57)]


class Sp:
    def __init__(self, name, elements=None):
        self.name = name
        self.elements = elements


def _name(ctx, tag, n):
    return [ctx.char('%s.c0' % tag, LETTER)] + [ctx.char('%s.c%d' % (tag, i), NAMECH) for i in range(1, n)]


# ------------------------------------------------------------------------------ printer
def _expect_species(ctx, cells, pos, name_cells, nu, fmt, space, tag):
    """decode one species at cells[pos:]; returns new pos"""
    if ctx.is_sym():
        from symx.symstr import Tok
        tok = None
        if pos < len(cells) and isinstance(cells[pos], Tok):
            tok = cells[pos]
            pos += 1
            if space:
                ctx.true(tag + 'blank between coefficient and name', pos < len(cells) and cells[pos] == ' ')
                pos += 1
        ok = all(pos + j < len(cells) and cells[pos + j] is c for j, c in enumerate(name_cells))
        ctx.true(tag + 'name printed unchanged', ok)
        prec = 0.5 * 10 ** (-int(fmt[1]))
        if tok is None:
            ctx.true(tag + 'coefficient omitted only when it is 1 to the printed precision', (nu - 1 <= prec) & (1 - nu <= prec))
        else:
            v = tok.val
            if v.e.sort == 'I':
                ctx.true(tag + 'integer coefficient printed is the coefficient to the printed precision', (nu - v <= prec) & (v - nu <= prec))
            else:
                ctx.true(tag + 'decimal coefficient printed with the requested format', tok.spec == fmt)
                ctx.eq(tag + 'decimal coefficient printed is the coefficient', v, nu)
        return pos + len(name_cells)
    return pos


def h_print(ctx, nsp, namelen, fmt, space, delim):
    from pmutt.reaction import _write_reaction_state
    names = [_name(ctx, 's%d' % i, namelen) for i in range(nsp)]
    nus = [ctx.real('nu%d' % i, 0.25, 4) for i in range(nsp)]
    sps = [Sp(ctx.string(n)) for n in names]
    out = _write_reaction_state(species=sps, stoich=list(nus), species_delimiter=delim, stoich_format=fmt, stoich_space=space)
    if ctx.is_sym():
        cells = list(out.cells)
        pos = 0
        for i in range(nsp):
            if i:
                ok = all(pos + j < len(cells) and cells[pos + j] == ch for j, ch in enumerate(delim))
                ctx.true('delimiter between species %d and %d' % (i - 1, i), ok)
                pos += len(delim)
            pos = _expect_species(ctx, cells, pos, names[i], nus[i], fmt, space, 'species %d: ' % i)
        ctx.true('nothing else printed', pos == len(cells))
    else:
        # replay: parse the concrete text back with an independent tokenizer
        parts = out.split(delim)
        ctx.true('nothing else printed', len(parts) == nsp)
        prec = 0.5 * 10 ** (-int(fmt[1]))
        for i, part in enumerate(parts[:nsp]):
            nm = ''.join(names[i])
            ctx.true('species %d: name printed unchanged' % i, part.endswith(nm))
            coef = part[:len(part) - len(nm)].strip()
            val = float(coef) if coef else 1.0
            lab = ('species %d: coefficient omitted only when it is 1 to the printed precision' if not coef else
                   ('species %d: integer coefficient printed is the coefficient to the printed precision' if '.' not in coef
                    else 'species %d: decimal coefficient printed is the coefficient')) % i
            if coef and '.' in coef:
                ctx.eq(lab, val, nus[i], tol=prec * 1.0001)
            else:
                ctx.true(lab, abs(val - nus[i]) <= prec * 1.0001)


BOUNDARY_COEFS = [0.5, 0.25, 1.004, 0.996, 1.5, 2.5, 2.999, 2.9949, 3.001, 9.6, 9.96, 9.996, 10.4, 19.96, 0.96, 0.04, 99.5, 100.4, 12.25]


def h_print_rounded(ctx, fmt, space, nus):
    """concrete boundary coefficients, symbolic names"""
    for nu in nus:
        _print_rounded(ctx, fmt, space, nu, '%r: ' % nu)


def _print_rounded(ctx, fmt, space, nu, tag):
    """the coefficient is a concrete boundary value, so the text comes from the real CPython formatter (digits after rounding included);
    the species name stays symbolic"""
    from pmutt.reaction import _write_reaction_state
    name = _name(ctx, 's', 2)
    out = _write_reaction_state(species=[Sp(ctx.string(name))], stoich=[nu], species_delimiter='+', stoich_format=fmt, stoich_space=space)
    nd = int(fmt[1])
    prec = 0.5 * 10 ** (-nd)
    if ctx.is_sym():
        cells = list(out.cells)
        ok = len(cells) >= 2 and cells[-2] is name[0] and cells[-1] is name[1]
        ctx.true(tag + 'name printed unchanged at the end', ok)
        head = cells[:-2]
        ctx.true(tag + 'coefficient text is concrete', all(isinstance(c, str) for c in head))
        if not all(isinstance(c, str) for c in head):
            return
        text = ''.join(head)
    else:
        nm = ''.join(name)
        ctx.true(tag + 'name printed unchanged at the end', out.endswith(nm))
        text = out[:len(out) - len(nm)]
    if space and text:
        ctx.true(tag + 'one blank between coefficient and name', text.endswith(' ') and not text[:-1].endswith(' '))
        text = text[:-1]
    if not text:
        ctx.true(tag + 'coefficient omitted only when it is 1 to the printed precision', abs(nu - 1) <= prec * 1.0001)
        return
    import re as _re
    ctx.true(tag + 'coefficient is an unsigned decimal literal', _re.fullmatch(r'[0-9]+(\.[0-9]+)?', text) is not None)
    if _re.fullmatch(r'[0-9]+(\.[0-9]+)?', text) is None:
        return
    ctx.true(tag + 'printed coefficient is the coefficient to the printed precision', abs(float(text) - nu) <= prec * 1.0001)
    if '.' in text:
        ctx.true(tag + 'decimal coefficient has the requested number of decimals', len(text.split('.')[1]) == nd)


def h_to_string(ctx, ts, rd, sd):
    """Reaction.to_string assembles reactants, transition state, products with the requested delimiters"""
    from pmutt.reaction import Reaction
    A, B, C, D, T, T2 = (_name(ctx, t, 2) for t in ('A', 'B', 'C', 'D', 'T', 'U'))
    nu = [ctx.real('nu%d' % i, 0.25, 4) for i in range(6)]
    rxn = Reaction(reactants=[Sp(ctx.string(A)), Sp(ctx.string(B))], reactants_stoich=[nu[0], nu[1]],
                   products=[Sp(ctx.string(C)), Sp(ctx.string(D))], products_stoich=[nu[2], nu[4]],
                   transition_state=[Sp(ctx.string(T))] if ts else None, transition_state_stoich=[nu[3]] if ts else None)
    out = rxn.to_string(species_delimiter=sd, reaction_delimiter=rd)
    states = out.split(rd)
    ctx.true('states separated by the reaction delimiter', len(states) == (3 if ts else 2))
    if len(states) != (3 if ts else 2):
        return
    from pmutt.reaction import _write_reaction_state
    want = [_write_reaction_state([Sp(ctx.string(A)), Sp(ctx.string(B))], [nu[0], nu[1]], species_delimiter=sd)]
    if ts:
        want.append(_write_reaction_state([Sp(ctx.string(T))], [nu[3]], species_delimiter=sd))
    want.append(_write_reaction_state([Sp(ctx.string(C)), Sp(ctx.string(D))], [nu[2], nu[4]], species_delimiter=sd))
    for k, (g, w) in enumerate(zip(states, want)):
        ctx.true('state %d printed with the species delimiter' % k, g == w)
    ctx.true('str(reaction) is to_string()', rxn.__str__() == rxn.to_string())


# ------------------------------------------------------------------------------ parser
COEF_FORMS = ['', 'd', 'dd', 'd.d', 'd.', 'd.dd', 'dd.d']


def _coef(ctx, tag, form):
    """cells + exact value of a coefficient literal of the given shape"""
    cells, val, scale, seen_dot = [], 0, 1, False
    from fractions import Fraction
    k = 0
    for ch in form:
        if ch == 'd':
            d = ctx.char('%s.%d' % (tag, k), DIGIT)
            k += 1
            cells.append(d)
            val = val * 10 + (ctx.code(d) - 48)
            if seen_dot:
                scale = scale * 10
        else:
            cells.append('.')
            seen_dot = True
    if not form:
        return cells, 1.0
    return cells, val * (Fraction(1, scale) if ctx.is_sym() else 1.0 / scale)


def h_parse(ctx, forms, namelen, blanks, sd, rd, ts):
    """forms: coefficient shape per species: reactants (2), [ts (1)], products (1)"""
    from pmutt.reaction import _parse_reaction
    tags = ['A', 'B'] + (['T'] if ts else []) + ['C']
    names = {t: _name(ctx, t, namelen) for t in tags}
    coefs = {t: _coef(ctx, 'k' + t, f) for t, f in zip(tags, forms)}
    pad = [' '] * blanks

    def sp(t):
        return pad + coefs[t][0] + pad + names[t] + pad
    cells = sp('A') + list(sd) + sp('B') + list(rd)
    if ts:
        cells += sp('T') + list(rd)
    cells += sp('C')
    r, rs, p, ps, t, tss = _parse_reaction(ctx.string(cells), species_delimiter=sd, reaction_delimiter=rd)
    same_AB = (ctx.string(names['A']) == ctx.string(names['B']))
    if bool(same_AB):
        ctx.true('repeated species merged into one entry', len(r) == 1)
        if len(r) == 1:
            ctx.true('merged name', r[0] == ctx.string(names['A']))
            ctx.eq('merged coefficient is the sum', rs[0], coefs['A'][1] + coefs['B'][1])
    else:
        ctx.true('two reactants', len(r) == 2)
        if len(r) == 2:
            ctx.true('reactant 0 name', r[0] == ctx.string(names['A']))
            ctx.true('reactant 1 name', r[1] == ctx.string(names['B']))
            ctx.eq('reactant 0 coefficient', rs[0], coefs['A'][1])
            ctx.eq('reactant 1 coefficient', rs[1], coefs['B'][1])
    ctx.true('one product', len(p) == 1)
    if len(p) == 1:
        ctx.true('product name', p[0] == ctx.string(names['C']))
        ctx.eq('product coefficient', ps[0], coefs['C'][1])
    if ts:
        ctx.true('transition state found', t is not None and len(t) == 1)
        if t is not None and len(t) == 1:
            ctx.true('transition-state name', t[0] == ctx.string(names['T']))
            ctx.eq('transition-state coefficient', tss[0], coefs['T'][1])
    else:
        ctx.true('no transition state', t is None and tss is None)


def h_from_string(ctx, missing):
    """species are looked up by the parsed names; a name that is not in the dictionary is named in the error"""
    from pmutt.reaction import Reaction
    A, B, C = (_name(ctx, t, 2) for t in ('A', 'B', 'C'))
    sA, sB, sC = ctx.string(A), ctx.string(B), ctx.string(C)
    ctx.assume(sA != sB if ctx.is_sym() else sA != sB)
    ctx.assume(sA != sC if ctx.is_sym() else sA != sC)
    ctx.assume(sB != sC if ctx.is_sym() else sB != sC)
    objs = {'A': Sp(sA), 'B': Sp(sB), 'C': Sp(sC)}
    species = {sA: objs['A'], sC: objs['C']}
    if not missing:
        species[sB] = objs['B']
    text = ctx.string(['2'] + A + [' ', '+', ' '] + B + [' ', '=', ' '] + C)
    try:
        rxn = Reaction.from_string(text, species)
    except KeyError as e:
        ctx.true('unknown species raises exactly when it is missing', missing)
        return
    ctx.true('unknown species raises exactly when it is missing', not missing)
    ctx.true('reactants are the dictionary objects, in order', rxn.reactants[0] is objs['A'] and rxn.reactants[1] is objs['B'])
    ctx.true('product is the dictionary object', rxn.products[0] is objs['C'])
    ctx.eq('coefficient 2 read', rxn.reactants_stoich[0], 2.0)
    ctx.eq('omitted coefficient read as 1', rxn.reactants_stoich[1], 1.0)


# ------------------------------------------------------------------------------ element balance
def h_balance(ctx, nel, ts):
    from pmutt.reaction import Reaction
    els = ['C', 'H'][:nel]

    def sp(tag):
        return Sp(tag, {e: ctx.real('%s.%s' % (tag, e), 0, 10) for e in els})
    R, P, T = [sp('R0'), sp('R1')], [sp('P0')], [sp('T0')]
    nuR = [ctx.real('nuR%d' % i, 0.25, 4) for i in range(2)]
    nuP = [ctx.real('nuP0', 0.25, 4)]
    nuT = [ctx.real('nuT0', 0.25, 4)]
    rxn = Reaction(reactants=R, reactants_stoich=nuR, products=P, products_stoich=nuP, transition_state=T if ts else None,
                   transition_state_stoich=nuT if ts else None)

    def total(sps, nus, e):
        t = 0
        for s, n in zip(sps, nus):
            t = t + s.elements[e] * n
        return t
    bal = True
    for e in els:
        c = total(R, nuR, e) == total(P, nuP, e)
        if ts:
            c = c & (total(R, nuR, e) == total(T, nuT, e))
        bal = c if bal is True else (bal & c)
    try:
        rxn.check_element_balance()
    except ValueError:
        ctx.true('rejected only when some element total differs', NOT(bal))
        return
    ctx.true('accepted only when every element total agrees (both sides and the transition state)', bal)


# ------------------------------------------------------------------------------ formulas
def h_formula(ctx, shape):
    """shape: list of (symbol length 1|2, number of count digits 0..3)"""
    from pmutt import parse_formula
    cells, groups = [], []
    for i, (sl, nd) in enumerate(shape):
        sym = [ctx.char('e%d.u' % i, [(65, 90)])] + [ctx.char('e%d.l%d' % (i, j), [(97, 122)]) for j in range(sl - 1)]
        digs = [ctx.char('e%d.d%d' % (i, j), DIGIT) for j in range(nd)]
        v = 0
        for d in digs:
            v = v * 10 + (ctx.code(d) - 48)
        cells += sym + digs
        groups.append((ctx.string(sym), v if nd else 1))
    res = parse_formula(ctx.string(cells))
    # expected: counts of equal symbols summed
    done = []
    for i, (s, v) in enumerate(groups):
        if any(bool(s == t) for t in done):
            continue
        done.append(s)
        tot = 0
        for (s2, v2) in groups:
            if bool(s == s2):
                tot = tot + v2
        hit = [val for key, val in res.items() if bool(key == s)]
        ctx.true('symbol of group %d present once in the result' % i, len(hit) == 1)
        if len(hit) == 1:
            ctx.eq('count of the symbol of group %d = sum over its occurrences (missing count = 1)' % i, hit[0], tot)
    ctx.true('no other symbols', len(res) == len(done))


def h_ring(ctx, spaced):
    """pmutt.io.ring.read_reactions: every line holding the reaction delimiter is one reaction (with or without a transition
    state, with symbolic coefficient digits), every other line is skipped, order kept"""
    import os
    from pmutt.io.ring import read_reactions

    class Sp:
        def __init__(self, name):
            self.name = name
            self.elements = None
    names = ['A', 'B', 'C', 'AB_TS', 'D2']
    species = {n: Sp(n) for n in names}
    d1 = ctx.char('coef0', [(49, 57)])
    d2 = ctx.char('coef1', [(50, 57)])
    arrow = [' ', '>', '>', ' '] if spaced else ['>', '>']
    dot = [' ', '.', ' '] if spaced else ['.']
    lines = [list('// generated by RING'),
             [d1] + list('A') + dot + list('B') + arrow + list('C'),
             list(''),
             list('A') + dot + list('B') + arrow + list('AB_TS') + arrow + [d2] + list('D2'),
             list('species without reaction'),
             list('C') + arrow + list('A')]
    cells = []
    for ln in lines:
        cells += ln + ['\n']
    text = ctx.string(cells)
    if ctx.is_sym():
        from symx import symstr
        symstr.VFS['mem://ring.txt'] = text
        rxns = read_reactions('mem://ring.txt', species=species)
    else:
        import tempfile
        fd, path = tempfile.mkstemp(suffix='.txt')
        os.close(fd)
        try:
            with open(path, 'w') as f:
                f.write(text)
            rxns = read_reactions(path, species=species)
        finally:
            os.unlink(path)
    rx = list(rxns.reactions)
    ctx.true('one reaction per line holding the delimiter, the others skipped', len(rx) == 3)
    if len(rx) != 3:
        return
    ctx.true('reaction 0: species', [s.name for s in rx[0].reactants] == ['A', 'B'] and [s.name for s in rx[0].products] == ['C'] and rx[0].transition_state is None)
    ctx.true('reaction 0: coefficient read from its digit', rx[0].reactants_stoich[0] == ctx.code(d1) - 48)
    ctx.true('reaction 1 keeps its transition state', rx[1].transition_state is not None and [s.name for s in rx[1].transition_state] == ['AB_TS']
             and [s.name for s in rx[1].products] == ['D2'])
    ctx.true('reaction 1: product coefficient read from its digit', rx[1].products_stoich[0] == ctx.code(d2) - 48)
    ctx.true('reaction 2: species', [s.name for s in rx[2].reactants] == ['C'] and [s.name for s in rx[2].products] == ['A'])
    ctx.true('the species objects are the ones supplied', rx[0].reactants[0] is species['A'] and rx[1].products[0] is species['D2'])


def groups(tier):
    th = tier == 'thorough'
    g = []
    for spaced in (False, True):
        g.append(dict(name='ring-reader/spaced=%s' % spaced, harness=h_ring, params=dict(spaced=spaced), no_validate=True))
    for nsp in ((1, 2, 3) if th else (1, 2)):
        for fmt in ('.2f', '.3f', '.1f', '.0f'):        # '.0f' is what the Chemkin writers use
            for space in (False, True):
                for delim in ('+', '.', ' + '):
                    if not th and (fmt != '.2f') and (space or delim != '+'):
                        continue
                    g.append(dict(name='print/%dsp/%s/space=%s/delim=%r' % (nsp, fmt, space, delim), harness=h_print,
                                  params=dict(nsp=nsp, namelen=2 if nsp > 1 else 3, fmt=fmt, space=space, delim=delim), no_validate=True))
    for fmt in ('.2f', '.0f', '.1f', '.3f'):
        for space in (False, True):
            g.append(dict(name='print-rounded/%s/space=%s' % (fmt, space), harness=h_print_rounded,
                          params=dict(fmt=fmt, space=space, nus=BOUNDARY_COEFS), no_validate=True))
    for ts in (False, True):
        for rd, sd in (('=', '+'), ('<=>', '+'), ('>>', '.'), (' => ', ' & ')):
            g.append(dict(name='to_string/ts=%s/%r/%r' % (ts, rd, sd), harness=h_to_string, params=dict(ts=ts, rd=rd, sd=sd), no_validate=True, max_paths=1000))
    k = 0
    for ts in (False, True):
        for rd, sd in (('=', '+'), ('<=>', '+'), ('>>', '.')):
            for blanks in (0, 1):
                for fa in COEF_FORMS:
                    k += 1
                    fb = COEF_FORMS[(k * 3) % len(COEF_FORMS)]
                    fc = COEF_FORMS[(k * 5 + 1) % len(COEF_FORMS)]
                    ft = COEF_FORMS[(k + 2) % len(COEF_FORMS)]
                    if sd == '.' and any('.' in f for f in (fa, fb, fc, ft)):
                        continue            # a decimal point cannot be told from the '.' species delimiter (documented RING format uses integers)
                    if not th and (k % 2) and rd != '=':
                        continue
                    forms = [fa, fb] + ([ft] if ts else []) + [fc]
                    g.append(dict(name='parse/ts=%s/%r/%r/blanks%d/%s' % (ts, rd, sd, blanks, ','.join(f or 'none' for f in forms)), harness=h_parse,
                                  params=dict(forms=forms, namelen=2, blanks=blanks, sd=sd, rd=rd, ts=ts), no_validate=True, max_paths=4000))
    if th:
        g.append(dict(name='parse/3-char-names', harness=h_parse, params=dict(forms=['d.d', '', 'dd'], namelen=3, blanks=1, sd='+', rd='=', ts=False),
                      no_validate=True, max_paths=20000))
    for missing in (False, True):
        g.append(dict(name='from_string/missing=%s' % missing, harness=h_from_string, params=dict(missing=missing), no_validate=True))
    for nel in (1, 2):
        for ts in (False, True):
            g.append(dict(name='balance/%del/ts=%s' % (nel, ts), harness=h_balance, params=dict(nel=nel, ts=ts), no_validate=True))
    shapes = [[(1, 0)], [(2, 1)], [(1, 3)], [(1, 0), (1, 1)], [(2, 0), (1, 2)], [(1, 1), (1, 1)], [(1, 1), (2, 0), (1, 1)], [(1, 0), (1, 0), (1, 0)],
              [(2, 2), (2, 2)]]
    if th:
        shapes += [[(1, 1), (1, 1), (1, 1), (1, 1)], [(2, 3), (1, 3)], [(1, 2), (2, 1), (1, 0)]]
    for sh in shapes:
        g.append(dict(name='formula/%s' % '+'.join('%dL%dd' % x for x in sh), harness=h_formula, params=dict(shape=sh), no_validate=True, max_paths=20000))
    return g
