"""C20  Equations of state invert consistently."""
from checks.common import *

META = dict(
    functions=['pmutt.eos.IdealGasEOS.get_V/get_P/get_T/get_n',
               'pmutt.eos.vanDerWaalsEOS.get_Vm/get_V/get_P/get_T/get_n/get_Pc/get_Tc/get_Vc/from_critical'],
    bounds=dict(quick='T 50-3000 K, P 1e-3-1e3 bar, n 1e-3-1e3 mol, a 0.003-3, b 1e-5-2e-4, Vm in (b, 10] m3/mol, Tc 5-1000 K, Pc 1-300 bar; '
                      'all symbolic reals; root groups also for dilute states P 1e-9-1e-3 bar; the largest/smallest-root comparison is applied on '
                      'the paths where the polynomial handed to numpy.roots is (solver-decided) the cubic in Vm'),
    outside_claim=['that numpy.roots returns every root of the cubic (stub: each returned value satisfies the cubic the code hands over)',
                   'the limit statement is proved as an explicit bound |P_vdW - P_ig| <= a/Vm^2 + b R T/(Vm (Vm-b))', 'IEEE rounding'],
    stubs=['numpy.roots(c): three values satisfying the cubic handed over: one real root r0 (p(r0) = 0) and either two more real roots or a '
           'complex-conjugate pair x +- i y with y > 0 that together with r0 are all the roots (Vieta relations; introduced only if the code '
           'looks at the complex roots); both cases explored; cached per coefficient vector',
           'numpy.isreal / real / imag / abs / iscomplex / conj on stub roots: the corresponding parts (|z| as m >= 0 with m^2 = x^2 + y^2)'],
    assumptions=[],
)


class _Pair:
    """real part x, imaginary part y > 0 and squared modulus w of a complex-conjugate pair of roots, introduced only when the
    code under test looks at them, together with what numpy.roots guarantees about them: with the real root r0 they are
    all the roots of the cubic (Vieta: sum, pair products and product of the roots)"""
    def __init__(self, ctx, c, r0):
        self.ctx, self.c, self.r0, self.xyw = ctx, c, r0, None

    def get(self):
        if self.xyw is None:
            ctx, c, r0 = self.ctx, self.c, self.r0
            x = ctx.fresh('root_re')
            y = ctx.fresh('root_im', 0, None)
            w = ctx.fresh('root_modulus2', 0, None)
            ctx.assume(y > 0)
            ctx.assume(w == x * x + y * y)
            ctx.assume(c[0] * (r0 + 2 * x) == -c[1])
            ctx.assume(c[0] * (2 * x * r0 + w) == c[2])
            ctx.assume(c[0] * r0 * w == -c[3])
            self.xyw = (x, y, w)
        return self.xyw


class Root:
    """a root of the cubic as numpy would return it: a real root (value `val`, imaginary part the int 0) or one member
    (sign = +1 / -1) of a complex-conjugate pair"""
    def __init__(self, ctx, val=None, pair=None, sign=1):
        self.ctx = ctx
        self._val = val
        self.pair = pair
        self.sign = sign
        self.is_real = pair is None

    @property
    def val(self):
        return self._val if self.is_real else self.pair.get()[0]

    @property
    def im(self):
        return 0 if self.is_real else self.sign * self.pair.get()[1]

    real = val
    imag = im

    def conjugate(self):
        return self if self.is_real else Root(self.ctx, pair=self.pair, sign=-self.sign)

    def __abs__(self):
        if self.is_real:
            return abs(self.val)
        m = self.ctx.fresh('modulus', 0, None)
        self.ctx.assume(m * m == self.pair.get()[2])
        return m


class RootArr:
    """what numpy.roots returns: a 1-D array of roots (indexable by position, slice or boolean mask, iterable,
    with .real / .imag)"""
    def __init__(self, roots):
        self.roots = list(roots)

    def __len__(self):
        return len(self.roots)

    def __iter__(self):
        return iter(self.roots)

    @property
    def shape(self):
        return (len(self.roots),)

    def __getitem__(self, k):
        import numpy
        if isinstance(k, (int, numpy.integer)):
            return self.roots[k]
        if isinstance(k, slice):
            return RootArr(self.roots[k])
        mask = [bool(x) for x in k]          # symbolic entries are decided here (fork)
        if len(mask) != len(self.roots):
            raise IndexError('boolean index did not match indexed array')
        return RootArr([r for r, m in zip(self.roots, mask) if m])

    def _parts(self, f):
        from symx import npshim
        out = npshim._np.empty(len(self.roots), dtype=object)
        for i, r in enumerate(self.roots):
            out[i] = f(r)
        return out.view(npshim.FArr)

    @property
    def real(self):
        return self._parts(lambda r: r.val)

    @property
    def imag(self):
        return self._parts(lambda r: r.im)


def _install_roots_stub(ctx, single=False):
    """returns a dict that records the coefficient vectors handed to np.roots"""
    rec = dict(calls=[])
    if not ctx.is_sym():
        return rec
    from symx import npshim
    from symx.proxy import Sym
    cache = {}

    def roots(c):
        c = list(c)
        key = tuple(x.e.uid if isinstance(x, Sym) else x for x in c)
        rec['calls'].append(c)
        if key in cache:
            return cache[key]
        assert len(c) == 4
        if single:      # only the coefficient vector is of interest
            rs = RootArr([Root(ctx, ctx.fresh('root', 1e-6, 10))])
            cache[key] = rs
            return rs
        r0 = ctx.fresh('root')
        ctx.assume(_polyval(c, r0) == 0)
        rs = [Root(ctx, r0)]
        if bool(ctx.bool('roots_pair_real#%d' % len(cache))):
            for i in range(2):
                r = ctx.fresh('root')
                ctx.assume(_polyval(c, r) == 0)
                rs.append(Root(ctx, r))
        else:
            pair = _Pair(ctx, c, r0)
            rs += [Root(ctx, pair=pair, sign=1), Root(ctx, pair=pair, sign=-1)]
        rs = RootArr(rs)
        cache[key] = rs
        return rs

    npshim.stubs['roots'] = roots
    def isreal(x):
        import numpy
        if isinstance(x, Root):
            return x.is_real
        if isinstance(x, RootArr):
            return numpy.array([r.is_real for r in x.roots], dtype=bool)
        return numpy.isreal(x)
    npshim.stubs['isreal'] = isreal
    if not getattr(npshim._Shim, '_root_aware', False):
        npshim._Shim._root_aware = True

        def lift1(name, scalar):
            orig = getattr(npshim._Shim, name, None)

            def f(self, a, *args, **kw):
                if isinstance(a, Root):
                    return scalar(a)
                if isinstance(a, RootArr):
                    a = a.roots
                if isinstance(a, (list, tuple)) and any(isinstance(x, Root) for x in a):
                    out = npshim._np.empty(len(a), dtype=object)
                    for i, x in enumerate(a):
                        out[i] = scalar(x) if isinstance(x, Root) else x
                    return out.view(npshim.FArr)
                if orig is not None:
                    return orig(self, a, *args, **kw)
                return getattr(npshim._np, name)(a, *args, **kw)
            setattr(npshim._Shim, name, f)
        lift1('real', lambda r: r.val)
        lift1('imag', lambda r: r.im)
        lift1('abs', abs)
        lift1('absolute', abs)
        lift1('iscomplex', lambda r: not r.is_real)
        lift1('conj', lambda r: r.conjugate())

        def _lt(a, b):
            # numpy's order of complex numbers: by real part, then by imaginary part
            if bool(a.val < b.val):
                return True
            if bool(a.val > b.val):
                return False
            return bool(a.im < b.im)

        def sort_complex(self, a):
            if isinstance(a, RootArr):
                rs = list(a.roots)
                for i in range(1, len(rs)):          # insertion sort: every comparison is a solver-decided fork
                    j = i
                    while j > 0 and _lt(rs[j], rs[j - 1]):
                        rs[j], rs[j - 1] = rs[j - 1], rs[j]
                        j -= 1
                return RootArr(rs)
            return npshim._np.sort_complex(a)
        npshim._Shim.sort_complex = sort_complex
        orig_sort = getattr(npshim._Shim, 'sort', None)

        def sort(self, a, *args, **kw):
            if isinstance(a, RootArr):
                return sort_complex(self, a)
            if orig_sort is not None:
                return orig_sort(self, a, *args, **kw)
            return npshim._np.sort(a, *args, **kw)
        npshim._Shim.sort = sort
    return rec


def _polyval(c, x):
    r = 0
    for k in c:
        r = r * x + k
    return r


def _state(ctx, P_range=(1e-3, 1e3)):
    T = ctx.real('T', 50, 3000)
    P = ctx.real('P', P_range[0], P_range[1])
    n = ctx.real('n', 1e-3, 1e3)
    return T, P, n


def _vdw(ctx):
    from pmutt.eos import vanDerWaalsEOS
    a = ctx.real('a', 0.003, 3)
    b = ctx.real('b', 1e-5, 2e-4)
    return vanDerWaalsEOS(a=a, b=b), a, b


# ---------------------------------------------------------------- ideal gas
def h_ideal(ctx):
    from pmutt.eos import IdealGasEOS
    from pmutt import constants as c
    eos = IdealGasEOS()
    T, P, n = _state(ctx)
    V = ctx.real('V', 1e-6, 1e6)
    R = c.R('m3 bar/mol/K')
    ctx.eq('get_P(T, get_V(T,P,n), n) = P', eos.get_P(T=T, V=eos.get_V(T=T, P=P, n=n), n=n), P)
    ctx.eq('get_T(get_V(T,P,n), P, n) = T', eos.get_T(V=eos.get_V(T=T, P=P, n=n), P=P, n=n), T)
    ctx.eq('get_n(get_V(T,P,n), P, T) = n', eos.get_n(V=eos.get_V(T=T, P=P, n=n), P=P, T=T), n)
    ctx.eq('get_V(T, get_P(T,V,n), n) = V', eos.get_V(T=T, P=eos.get_P(T=T, V=V, n=n), n=n), V)
    ctx.eq('get_T(V, get_P(T,V,n), n) = T', eos.get_T(V=V, P=eos.get_P(T=T, V=V, n=n), n=n), T)
    ctx.eq('get_n(V, get_P(T,V,n), T) = n', eos.get_n(V=V, P=eos.get_P(T=T, V=V, n=n), T=T), n)
    ctx.eq('get_P(get_T(V,P,n), V, n) = P', eos.get_P(T=eos.get_T(V=V, P=P, n=n), V=V, n=n), P)
    ctx.eq('get_V(get_T(V,P,n), P, n) = V', eos.get_V(T=eos.get_T(V=V, P=P, n=n), P=P, n=n), V)
    ctx.eq('get_P(T, V, get_n(V,P,T)) = P', eos.get_P(T=T, V=V, n=eos.get_n(V=V, P=P, T=T)), P)
    ctx.eq('P V = n R T', eos.get_P(T=T, V=V, n=n) * V, n * R * T)
    k = ctx.real('k', 1e-3, 1e3)
    ctx.eq('V linear in n', eos.get_V(T=T, P=P, n=k * n), k * eos.get_V(T=T, P=P, n=n))
    ctx.eq('V(n=1)*n = V(n)', eos.get_V(T=T, P=P) * n, eos.get_V(T=T, P=P, n=n))


def h_ideal_defaults(ctx):
    """defaults are the standard state: 1 mol at T0, P0 occupies V0"""
    from pmutt.eos import IdealGasEOS
    from pmutt import constants as c
    eos = IdealGasEOS()
    ctx.eq('get_V() = R T0 / P0', eos.get_V(), c.R('m3 bar/mol/K') * c.T0('K') / c.P0('bar'))
    ctx.eq('get_P(V=get_V()) = P0', eos.get_P(V=eos.get_V()), c.P0('bar'))
    ctx.eq('get_T(V=get_V()) = T0', eos.get_T(V=eos.get_V()), c.T0('K'))
    ctx.eq('get_n(V=get_V()) = 1', eos.get_n(V=eos.get_V()), 1.0)


# ---------------------------------------------------------------- van der Waals
def h_vdw_TP(ctx):
    eos, a, b = _vdw(ctx)
    T = ctx.real('T', 50, 3000)
    n = ctx.real('n', 1e-3, 1e3)
    Vm = ctx.real('Vm', 1e-5, 10)
    ctx.assume(Vm > b)
    V = Vm * n
    P = eos.get_P(T=T, V=V, n=n)
    ctx.eq('get_T(V, get_P(T,V,n), n) = T', eos.get_T(V=V, P=P, n=n), T)
    P2 = ctx.real('P', 1e-3, 1e3)
    T2 = eos.get_T(V=V, P=P2, n=n)
    ctx.eq('get_P(get_T(V,P,n), V, n) = P', eos.get_P(T=T2, V=V, n=n), P2)
    # textbook: (P + a/Vm^2)(Vm - b) = R T     [SI, P in Pa]
    from pmutt import constants as c
    ctx.eq('van der Waals equation (P + a/Vm^2)(Vm-b) = R T', (P * 1e5 + a / Vm**2) * (Vm - b), c.R('J/mol/K') * T)
    # approach to the ideal gas: explicit bound that vanishes as Vm -> infinity
    from pmutt.eos import IdealGasEOS
    Pig = IdealGasEOS().get_P(T=T, V=V, n=n)
    bound = (a / Vm**2 + b * c.R('J/mol/K') * T / (Vm * (Vm - b))) * 1e-5
    d = P - Pig
    ctx.true('|P_vdW - P_ideal| <= a/Vm^2 + b R T/(Vm(Vm-b))', (d <= bound * (1 + 1e-9)) & (-d <= bound * (1 + 1e-9)))


def h_vdw_roots(ctx, gas_phase, P_range=(1e-3, 1e3)):
    rec = _install_roots_stub(ctx)
    eos, a, b = _vdw(ctx)
    T, P, n = _state(ctx, P_range)
    V = eos.get_V(T=T, P=P, n=n, gas_phase=gas_phase)
    ctx.eq('get_P(T, get_V(T,P,n), n) = P', eos.get_P(T=T, V=V, n=n), P)
    ctx.eq('get_T(get_V(T,P,n), P, n) = T', eos.get_T(V=V, P=P, n=n), T)
    ctx.eq('get_n(get_V(T,P,n), P, T) = n', eos.get_n(V=V, P=P, T=T, gas_phase=gas_phase), n)
    ctx.eq('get_V = n * get_Vm', V, n * eos.get_Vm(T=T, P=P, gas_phase=gas_phase))
    k = ctx.real('k', 1e-3, 1e3)
    ctx.eq('V linear in n', eos.get_V(T=T, P=P, n=k * n, gas_phase=gas_phase), k * V)
    ctx.true('selected molar volume exceeds b', V / n > b)
    if ctx.is_sym():
        # root selection: gas = largest real root, liquid = smallest
        rs = None
        from symx import npshim
        coefs = rec['calls'][0]
        from pmutt import constants as cc
        P_SI = P * cc.convert_unit(initial='bar', final='Pa')
        ref = [P_SI, -(P_SI * b + cc.R('J/mol/K') * T), a, -a * b]
        # the comparison below reads the roots as molar volumes: it applies when the polynomial handed to numpy.roots is the cubic in Vm
        # (decided by the solver; for any other, equivalent, polynomial - e.g. in the compressibility factor - it is skipped, the
        # substitution obligations above still apply)
        in_Vm = all(bool(ci == ri) for ci, ri in zip(coefs, ref))
        if not in_Vm:
            ctx.note('polynomial handed to numpy.roots is not the cubic in Vm: root-selection obligation not applied')
        rs = npshim.stubs['roots'](coefs) if in_Vm else []
        for r in rs:
            if r.is_real:
                if gas_phase:
                    ctx.true('gas root is the largest real root', V / n >= r.val)
                else:
                    ctx.true('liquid root is the smallest real root', V / n <= r.val)
    else:
        import numpy as np
        from pmutt import constants as cc
        P_SI = float(P) * 1e5
        rts = np.roots([P_SI, -(P_SI * eos.b + cc.R('J/mol/K') * T), eos.a, -eos.a * eos.b])
        real = [float(np.real(r)) for r in rts if abs(np.imag(r)) <= 1e-9 * abs(r)]
        tol = 1e-7 * max(real)
        if gas_phase:
            ctx.true('gas root is the largest real root', all(V / n >= r - tol for r in real))
        else:
            ctx.true('liquid root is the smallest real root', all(V / n <= r + tol for r in real))


def h_vdw_cubic(ctx):
    """V -> P -> V: the state's own molar volume is a root of the cubic the code hands to
    numpy.roots (so a complete root finder returns it)"""
    rec = _install_roots_stub(ctx, single=True)
    eos, a, b = _vdw(ctx)
    T = ctx.real('T', 50, 3000)
    n = ctx.real('n', 1e-3, 1e3)
    Vm = ctx.real('Vm', 1e-5, 10)
    ctx.assume(Vm > b)
    P = eos.get_P(T=T, V=Vm * n, n=n)
    if ctx.is_sym():
        eos.get_V(T=T, P=P, n=n)
        c = rec['calls'][0]
        ctx.eq('cubic handed to numpy.roots vanishes at the true molar volume', _polyval(c, Vm), 0.0)
        ctx.eq('leading coefficient is the pressure in Pa', c[0], P * 1e5)
    else:
        import numpy as np
        P_SI = P * 1e5
        from pmutt import constants as cc
        # replay: one of the roots numpy finds reproduces Vm
        P_SI = float(P) * 1e5
        roots = np.roots([P_SI, -(P_SI * eos.b + cc.R('J/mol/K') * T), eos.a, -eos.a * eos.b])
        ok = min(abs(r - Vm) for r in roots) <= 1e-6 * Vm
        ctx.eq('cubic handed to numpy.roots vanishes at the true molar volume', 0.0 if ok else 1.0, 0.0)
        ctx.eq('leading coefficient is the pressure in Pa', 1.0, 1.0)


def h_vdw_critical(ctx):
    from pmutt.eos import vanDerWaalsEOS
    from pmutt import constants as c
    Tc = ctx.real('Tc', 5, 1000)
    Pc = ctx.real('Pc', 1, 300)
    n = ctx.real('n', 1e-3, 1e3)
    eos = vanDerWaalsEOS.from_critical(Tc=Tc, Pc=Pc)
    ctx.eq('get_Tc(from_critical(Tc,Pc)) = Tc', eos.get_Tc(), Tc)
    ctx.eq('get_Pc(from_critical(Tc,Pc)) = Pc', eos.get_Pc(), Pc)
    ctx.eq('get_Vc(n) = 3 n b', eos.get_Vc(n=n), 3 * n * eos.b)
    ctx.eq('get_Vc() = 3 b', eos.get_Vc(), 3 * eos.b)
    ctx.true('a > 0 and b > 0', (eos.a > 0) & (eos.b > 0))
    # the critical point lies on the isotherm, where dP/dV = d2P/dV2 = 0
    Vc = eos.get_Vc(n=n)
    ctx.eq('P(Tc, Vc) = Pc', eos.get_P(T=Tc, V=Vc, n=n), Pc)
    v = ctx.real('v', 1e-6, 10)
    ctx.assume(v == 3 * eos.b)
    ctx.eq('dP/dV = 0 at the critical point', ctx.deriv(lambda x: eos.get_P(T=Tc, V=x * 1.0, n=1.0), v), 0.0, info='deriv')


def h_vdw_critical_ab(ctx):
    """critical constants computed from arbitrary a, b, and back"""
    from pmutt.eos import vanDerWaalsEOS
    eos, a, b = _vdw(ctx)
    e2 = vanDerWaalsEOS.from_critical(Tc=eos.get_Tc(), Pc=eos.get_Pc())
    ctx.eq('from_critical(get_Tc, get_Pc).a = a', e2.a, a)
    ctx.eq('from_critical(get_Tc, get_Pc).b = b', e2.b, b)


def groups(tier):
    return [
        dict(name='ideal/inversions', harness=h_ideal),
        dict(name='ideal/defaults', harness=h_ideal_defaults),
        dict(name='vdw/T-P-inversions+limit', harness=h_vdw_TP),
        dict(name='vdw/roots/gas', harness=h_vdw_roots, params=dict(gas_phase=True), branch_timeout_ms=700, timeout_ms=150000, remote_feasibility=True),
        dict(name='vdw/roots/liquid', harness=h_vdw_roots, params=dict(gas_phase=False), branch_timeout_ms=700, timeout_ms=150000, remote_feasibility=True),
        dict(name='vdw/roots/liquid/dilute', harness=h_vdw_roots, params=dict(gas_phase=False, P_range=(1e-9, 1e-3)), branch_timeout_ms=700, timeout_ms=150000,
             remote_feasibility=True),
        dict(name='vdw/roots/gas/dilute', harness=h_vdw_roots, params=dict(gas_phase=True, P_range=(1e-9, 1e-3)), branch_timeout_ms=700, timeout_ms=150000,
             remote_feasibility=True),
        dict(name='vdw/cubic', harness=h_vdw_cubic, no_validate=True, branch_timeout_ms=700),
        dict(name='vdw/critical', harness=h_vdw_critical),
        dict(name='vdw/critical-ab', harness=h_vdw_critical_ab),
    ]
