"""C07  OpenMKM / Cantera input files transcribe the model faithfully (partial: content, not YAML/CTI grammar)."""
import itertools
from checks.common import *
from checks.stubs import StubSpecies, ref_val

USES_STRINGS = True

META = dict(
    functions=['pmutt.io.omkm.write_yaml/write_thermo_yaml/write_cti', 'pmutt.omkm._assign_yaml_val', 'pmutt.omkm.reaction.SurfaceReaction.to_omkm_yaml/'
               'to_cti/get_A/get_G_act/get_H_act', 'pmutt.omkm.reaction.BEP.to_omkm_yaml/to_cti', 'pmutt.omkm.phase.InteractingInterface.to_omkm_yaml, '
               'pmutt.cantera.phase.IdealGas/StoichSolid.to_omkm_yaml and the species list operations of Phase', 'Nasa.to_omkm_yaml / to_cti',
               'pmutt.mixture.cov.PiecewiseCovEffect.to_omkm_yaml'],
    bounds=dict(quick='reactor file: every documented option in three groups, each option symbolically supplied or omitted (all patterns within a group), '
                      'numeric values symbolic reals, plus concrete value kinds (np.float64, np.int64, int, string with unit, list); phases omitted / '
                      'list / dict. Thermo file and CTI: 3 phases (gas, bulk, interacting interface), 5 NASA-7 species with symbolic coefficients, '
                      '3 surface reactions (adsorption, explicit transition state, BEP transition state) with user ids / auto ids / a mix, 2 lateral '
                      'interactions, every unit system of {default, (mol, m, kJ/mol), (molec, cm, kcal/mol)}, Motz-Wise on/off, T symbolic. '
                      'Phase population: every sequence of <= 3 append/extend/remove/pop/clear operations on two coexisting phase objects',
                thorough='adds 4-operation histories and more unit systems'),
    outside_claim=['well-formedness of the YAML text and of the CTI grammar (PyYAML emitter, the post-hoc quote stripping, ctml_writer): not '
                   'encodable; yaml.dump is replaced by the identity on the dictionary it receives', 'models with more species / reactions than the '
                   'skeleton', 'Nasa9 / Shomate species emitters'],
    stubs=['yaml.dump(data): returns a marker and records `data` (the structure is inspected, the text is not produced)',
           'reaction species in the rate-parameter obligations = StubSpecies (getter protocol)'],
    assumptions=[],
)


# ------------------------------------------------------------------------------------ reactor yaml
GROUPS = {
    # (argument, unit template, label, kind, section path)
    'reactor': [('reactor_type', None, 'type', 'str', 'reactor'), ('nodes', None, 'nodes', 'num', 'reactor'), ('V', '_length3', 'volume', 'num', 'reactor'),
                ('A', '_length2', 'area', 'num', 'reactor'), ('L', '_length', 'length', 'num', 'reactor'), ('cat_abyv', '/_length', 'cat_abyv', 'num', 'reactor'),
                ('T', None, 'temperature', 'num', 'reactor'), ('P', '_pressure', 'pressure', 'num', 'reactor')],
    'inlet+solver': [('flow_rate', '_length3/_time', 'flow_rate', 'num', 'inlet_gas'), ('residence_time', '_time', 'residence_time', 'num', 'inlet_gas'),
                     ('mass_flow_rate', '_mass/_time', 'mass_flow_rate', 'num', 'inlet_gas'), ('atol', None, 'atol', 'num', 'simulation/solver'),
                     ('rtol', None, 'rtol', 'num', 'simulation/solver')],
    'simulation': [('end_time', '_time', 'end_time', 'num', 'simulation'), ('transient', None, 'transient', 'flag', 'simulation'),
                   ('stepping', None, 'stepping', 'str', 'simulation'), ('step_size', None, 'step_size', 'num', 'simulation'),
                   ('init_step', None, 'init_step', 'num', 'simulation'), ('output_format', None, 'output_format', 'str', 'simulation'),
                   ('full_SA', None, 'full', 'flag', 'simulation/sensitivity')],
}
UNIT_TEXT = {'_length3': 'cm3', '_length2': 'cm2', '_length': 'cm', '/_length': '/cm', '_pressure': 'bar', '_length3/_time': 'cm3/s', '_time': 's',
             '_mass/_time': 'kg/s'}


def _capture_yaml(mod):
    rec = []
    saved = mod.yaml.dump

    def dump(data=None, stream=None, **kw):
        rec.append(data)
        return 'YAML'
    mod.yaml.dump = dump
    return rec, saved


def _num_text(ctx, cell_or_str):
    """decode  "<number> <unit>"  produced by _assign_yaml_val -> (value, unit text)"""
    from symx.symstr import SymStr, Tok
    if isinstance(cell_or_str, SymStr) and not cell_or_str.is_concrete():
        toks = [c for c in cell_or_str.cells if isinstance(c, Tok)]
        text = ''.join(c for c in cell_or_str.cells if isinstance(c, str))
        return (toks[0].val if len(toks) == 1 else None), text.strip('" ').strip()
    if isinstance(cell_or_str, SymStr):
        cell_or_str = cell_or_str.concrete()
    if not isinstance(cell_or_str, str):
        return None, ''
    s = cell_or_str.strip('"')
    parts = s.split(' ', 1)
    try:
        return float(parts[0]), (parts[1] if len(parts) > 1 else '')
    except ValueError:
        return None, s


def _leaves(node, path=''):
    out = {}
    if isinstance(node, dict):
        for k, v in node.items():
            out.update(_leaves(v, path + '/' + str(k) if path else str(k)))
    else:
        out[path] = node
    return out


def h_reactor(ctx, group, phases_kind):
    import pmutt.io.omkm as mod
    from pmutt.omkm.units import Units
    from pmutt.omkm.phase import IdealGas
    opts = GROUPS[group]
    kw, expect = {}, {}
    for (arg, unit, label, kind, sec) in opts:
        present = ctx.bool('supplied:' + arg)
        if not bool(present):
            continue
        if kind == 'num':
            v = ctx.real('val:' + arg, 0.001, 1000)
        elif kind == 'flag':
            v = True
        else:
            v = 'cstr' if arg == 'reactor_type' else 'text'
        kw[arg] = v
        expect[sec + '/' + label] = (arg, unit, v, kind)
    if phases_kind == 'list':
        kw['phases'] = [IdealGas(name='gas', species=[])]
    elif phases_kind == 'dict':
        kw['phases'] = {'gas': [{'name': 'gas'}]}
    rec, saved = _capture_yaml(mod)
    try:
        mod.write_yaml(units=Units(), **kw)
    finally:
        mod.yaml.dump = saved
    ctx.true('one YAML document written', len(rec) == 1)
    if len(rec) != 1:
        return
    doc = dict(rec[0])
    ph = doc.pop('phases', None)
    ctx.true('phases section lists the gas phase', ph is not None and 'gas' in ph)
    leaves = _leaves(doc)
    for path, (arg, unit, v, kind) in expect.items():
        ctx.true('%s supplied -> %s entry present' % (arg, path), path in leaves)
        if path not in leaves:
            continue
        got = leaves[path]
        if kind == 'num' and unit is not None:
            val, text = _num_text(ctx, got)
            ctx.true('%s carries its unit' % arg, text == UNIT_TEXT[unit])
            if val is not None:
                ctx.eq('%s value' % arg, val, v)
            else:
                ctx.fail('%s value printed' % arg)
        elif kind == 'num':
            ctx.eq('%s value' % arg, got, v)
        elif kind == 'flag':
            ctx.true('%s value' % arg, got is True)
        else:
            ctx.true('%s value (quoted string)' % arg, got == '"%s"' % v)
    ctx.true('nothing that was not supplied is written', set(leaves) <= set(expect))


def _write_yaml_doc(**kw):
    """the dictionary write_yaml hands to the YAML emitter ({'!raised': type} when it raises)"""
    import pmutt.io.omkm as mod
    rec, saved = _capture_yaml(mod)
    try:
        mod.write_yaml(**kw)
    except Exception as e:
        return {'!raised': type(e).__name__}
    finally:
        mod.yaml.dump = saved
    return rec[0] if rec else {}


def h_reactor_kinds(ctx):
    """value kinds: Python / NumPy numbers, strings with units, lists; units given / dict / omitted"""
    import numpy as np
    from pmutt.omkm.units import Units
    label = {'V': 'volume', 'nodes': 'nodes', 'T': 'temperature', 'P': 'pressure', 'L': 'length'}
    cases = [('V', 2.5, (2.5, 'cm3')), ('V', np.float64(2.5), (2.5, 'cm3')), ('V', 3, (3., 'cm3')), ('V', np.int64(3), (3., 'cm3')),
             ('V', np.float32(2.5), (2.5, 'cm3')), ('V', '5 m3', (5., 'm3')), ('P', '2 atm', (2., 'atm')), ('L', np.int32(4), (4., 'cm')),
             ('nodes', np.int64(7), 7), ('nodes', 7, 7), ('T', np.float32(300.), 300.), ('T', 300, 300.)]
    for arg, val, want in cases:
        doc = _write_yaml_doc(units=Units(), phases=[], **{arg: val})
        node = doc.get('reactor', {})
        lab = 'reactor option %s=%r (%s) is written with its value' % (arg, val, type(val).__name__)
        if isinstance(want, tuple):
            got = _num_text(ctx, node.get(label[arg]))
            ctx.true(lab + ' and unit', got == want)
        else:
            ctx.true(lab, label[arg] in node and float(node[label[arg]]) == float(want))
    doc = _write_yaml_doc(units=Units(), phases=[], multi_T=[300., 400.], multi_P=[1., 2.], multi_flow_rate=[5.])
    mi = doc.get('simulation', {}).get('multi_input', {})
    ctx.true('multi-input lists carry every value with its unit', mi.get('temperature') == [300., 400.] and mi.get('pressure') == ['"1.0 bar"', '"2.0 bar"']
             and mi.get('flow_rate') == ['"5.0 cm3/s"'])
    doc = _write_yaml_doc(units=Units(), phases=[], multi_P=['1 atm', 2.])
    ctx.true('multi-input entries given as strings keep their own unit',
             doc.get('simulation', {}).get('multi_input', {}).get('pressure') == ['"1 atm"', '"2.0 bar"'])
    doc = _write_yaml_doc(units={'length': 'm', 'pressure': 'Pa'}, phases=[], V=2.5, P=3.)
    node = doc.get('reactor', {})
    ctx.true('units given as a dict are used', _num_text(ctx, node.get('volume')) == (2.5, 'm3') and _num_text(ctx, node.get('pressure')) == (3., 'Pa'))
    # documented: "If units is not specified, all values in file are assumed to be SI units"
    doc = _write_yaml_doc(phases=[], V=2.5, T=300.)
    node = doc.get('reactor', {})
    ctx.true('units omitted: values written bare (SI assumed)', node.get('volume') == 2.5 and node.get('temperature') == 300.)
    # generic dictionaries take precedence and nothing of them is lost
    doc = _write_yaml_doc(units=Units(), phases=[], T=300., reactor={'temperature': 500., 'extra': 1}, misc={'top': 2})
    ctx.true('generic dictionaries written preferentially', doc.get('reactor') == {'temperature': 500., 'extra': 1} and doc.get('top') == 2)


def h_reactor_no_phases(ctx):
    doc = None
    from pmutt.omkm.units import Units
    doc = _write_yaml_doc(units=Units(), T=ctx.real('T', 300, 1000))
    ctx.true('reactor file written without a phases argument', 'reactor' in doc and 'phases' not in doc)


# ------------------------------------------------------------------------------------ thermo yaml / cti
UNIT_SYSTEMS = {
    'default': {},
    'SI-ish': dict(length='m', quantity='mol', act_energy='kJ/mol', energy='kJ', pressure='Pa', mass='kg'),
    'kcal': dict(length='cm', quantity='molec', act_energy='kcal/mol', energy='kcal'),
}
IDS = {'auto': [None, None, None], 'user': ['r_0010', 'r_0011', 'r_0012'], 'mixed': ['r_0001', None, None], 'clash': [None, 'r_0000', None]}
EQS = ['H2 + 2 PT(S) <=> 2 H(S)', 'H(S) + O(S) <=> 2 PT(S)', '2 H(S) <=> H2 + 2 PT(S)']


def _units(usys):
    u = dict(length='cm', time='s', quantity='molec', energy='cal', act_energy='cal/mol', pressure='bar', mass='kg')
    u.update(UNIT_SYSTEMS[usys])
    return u


def _model(ctx, ids, usys, explicit=False):
    from pmutt.omkm.units import Units
    from pmutt.omkm.phase import IdealGas, StoichSolid, InteractingInterface
    from pmutt.omkm.reaction import SurfaceReaction, BEP
    from pmutt.mixture.cov import PiecewiseCovEffect
    units = Units(**UNIT_SYSTEMS[usys])

    def sp(name, elements, n_sites=None):
        s = StubSpecies(ctx, name, elements=elements, n_sites=n_sites, quantities=['HoRT', 'SoR'], consistent=True)
        s.to_omkm_yaml = lambda units=None, _s=s: {'name': _s.name, 'composition': _s.elements}
        s.to_cti = lambda units=None, _s=s: 'species(name="%s")' % _s.name
        return s
    H2, H_S, PT_S, PT_B, TS = sp('H2', {'H': 2}), sp('H(S)', {'H': 1, 'Pt': 1}, 1), sp('PT(S)', {'Pt': 1}, 1), sp('PT(B)', {'Pt': 1}), sp('TS', {'H': 2, 'Pt': 2})
    O_S = sp('O(S)', {'O': 1, 'Pt': 1}, 1)
    sden = ctx.real('site_density', 1e-11, 1e-8)
    gas = IdealGas(name='gas', species=[H2])
    bulk = StoichSolid(name='bulk', species=[PT_B], density=ctx.real('bulk_density', 1, 30))
    surf = InteractingInterface(name='terrace', species=[H_S, PT_S, O_S], site_density=sden, phases=[gas, bulk])
    bep = BEP(slope=ctx.real('bep_slope', 0, 1), intercept=ctx.real('bep_intercept', 0, 60), name=None, descriptor='delta_H', direction='cleavage')
    # explicit: the user supplies Ea (kcal/mol) for the adsorption and A, Ea for the second reaction instead of having them computed
    ex0 = dict(Ea=ctx.real('Ea0_user', 0, 50)) if explicit else {}
    ex1 = dict(Ea=ctx.real('Ea1_user', 0, 50), A=ctx.real('A1_user', 1e3, 1e15)) if explicit else {}
    rx = [SurfaceReaction(id=ids[0], reactants=[H2, PT_S], reactants_stoich=[1., 2.], products=[H_S], products_stoich=[2.], is_adsorption=True,
                          sticking_coeff=ctx.real('sticking', 0, 1), beta=ctx.real('beta0', 0, 2), **ex0),
          SurfaceReaction(id=ids[1], reactants=[H_S, O_S], reactants_stoich=[1., 1.], products=[PT_S], products_stoich=[2.],
                          transition_state=[TS], transition_state_stoich=[1.], beta=ctx.real('beta1', 0, 2), **ex1),
          SurfaceReaction(id=ids[2], reactants=[H_S], reactants_stoich=[2.], products=[H2, PT_S], products_stoich=[1., 2.],
                          transition_state=[bep], transition_state_stoich=[1.], beta=ctx.real('beta2', 0, 2), direction='cleavage')]
    inter = [PiecewiseCovEffect(name_i='H(S)', name_j='O(S)', intervals=[0., ctx.real('cov_b1', 0.1, 0.9)],
                                slopes=[ctx.real('cov_s0', -30, 30), ctx.real('cov_s1', -30, 30)], name=None),
             PiecewiseCovEffect(name_i='O(S)', name_j='O(S)', intervals=[0.], slopes=[ctx.real('cov2_s0', -30, 30)], name='lat_0007')]
    surf.reactions = rx
    surf.interactions = inter
    species = [H2, H_S, PT_S, O_S, PT_B]
    return dict(units=units, phases=[gas, bulk, surf], species=species, reactions=rx, interactions=inter, bep=bep, sden=sden, TS=TS, bulk=bulk)


def _max0(*xs):
    val = 0.0
    for x in xs:
        val = x if bool(x > val) else val
    return val


def _want_rate(ctx, m, k, T, P_atm, usys, ads):
    """(A, Ea) the model gives for reaction k in the requested units (T in K, P in atm as the writers document)"""
    from pmutt import constants as c
    u = _units(usys)
    rxn = m['reactions'][k]
    if rxn.Ea is not None:
        return rxn.A, rxn.Ea * c.convert_unit(initial='kcal/mol', final=u['act_energy'])
    RT = c.R(u['act_energy'] + '/K') * T
    P = P_atm * c.convert_unit(initial='atm', final='bar')

    def tot(sps, nus, q):
        t = 0
        for s, n in zip(sps, nus):
            t = t + n * ref_val(s, q, T, P)
        return t
    if k == 0:
        q = 'HoRT' if ads == 'get_H_act' else 'GoRT'
        return None, _max0(tot(rxn.products, rxn.products_stoich, q) - tot(rxn.reactants, rxn.reactants_stoich, q)) * RT
    r, p = tot(rxn.reactants, rxn.reactants_stoich, 'GoRT'), tot(rxn.products, rxn.products_stoich, 'GoRT')
    if k == 1:
        t = tot([m['TS']], [1.], 'GoRT')
    else:
        # BEP transition state: H = H_reactants + (slope*dH + intercept)/RT ; S = S_reactants
        Hr, Hp = tot(rxn.reactants, rxn.reactants_stoich, 'HoRT'), tot(rxn.products, rxn.products_stoich, 'HoRT')
        RTk = c.R('kcal/mol/K') * T
        Sr = tot(rxn.reactants, rxn.reactants_stoich, 'SoR')
        t = Hr + (m['bep'].slope * (Hp - Hr) * RTk + m['bep'].intercept) / RTk - Sr
    ea = _max0(t - r, p - r) * RT
    eff = 2 * _sden(m, usys)
    A = c.kb('J/K') / c.h('J s') / eff
    return A, ea


def _sden(m, usys):
    from pmutt import constants as c
    u = _units(usys)
    return m['sden'] * c.convert_unit(initial='mol', final=u['quantity']) / c.convert_unit(initial='cm2', final=u['length'] + '2')


def h_thermo_yaml(ctx, id_kind, usys, motz, ads='get_H_act', explicit=False):
    import pmutt.io.omkm as mod
    from pmutt import constants as c
    ids = IDS[id_kind]
    m = _model(ctx, ids, usys, explicit)
    u = _units(usys)
    T = ctx.real('T', 300, 1000)
    P = ctx.real('P', 0.1, 20)
    rec, saved = _capture_yaml(mod)
    try:
        mod.write_thermo_yaml(phases=m['phases'], species=m['species'], reactions=m['reactions'], lateral_interactions=m['interactions'], units=m['units'],
                              T=T, P=P, use_motz_wise=motz, ads_act_method=ads)
    finally:
        mod.yaml.dump = saved
    doc = {}
    for d in rec:
        doc.update(d)
    ctx.true('sections written once each', sorted(doc) == sorted(['units', 'phases', 'species', 'reactions', 'beps', 'interactions']) and len(rec) == 6)
    if 'reactions' not in doc:
        return
    ctx.true('units section', doc['units'] == {'mass': u['mass'], 'length': u['length'], 'time': u['time'], 'quantity': u['quantity'],
                                               'energy': u['energy'], 'activation-energy': u['act_energy'], 'pressure': u['pressure']})
    rids = [r.get('id') for r in doc['reactions']]
    ctx.true('every reaction once', len(doc['reactions']) == 3)
    ctx.true('every reaction has an id', all(isinstance(i, str) and i for i in rids))
    ctx.true('reaction ids unique', len(set(rids)) == len(rids))
    for want, got in zip(ids, rids):
        if want is not None:
            ctx.true('user-supplied id %s kept' % want, got == want)
    ctx.true('species each once, in order', [s['name'] for s in doc['species']] == [s.name for s in m['species']])
    ctx.true('equations', [r['equation'] for r in doc['reactions']] == EQS)
    ae = u['act_energy']
    for k, r in enumerate(doc['reactions']):
        key = 'sticking-coefficient' if k == 0 else 'rate-constant'
        ctx.true('reaction %d: %s block' % (k, key), key in r)
        if key not in r:
            continue
        blk = r[key]
        A, ea = _want_rate(ctx, m, k, T, P, usys, ads)
        if k == 0:
            ctx.eq('reaction 0: sticking coefficient', blk['A'], m['reactions'][0].sticking_coeff)
            ctx.true('reaction 0: sticking species and Motz-Wise flag', r.get('sticking-species') == 'H2' and r.get('Motz-Wise') == motz)
        else:
            ctx.eq('reaction %d: A = kb/h / site_density^(n-1) in the requested units' % k, blk['A'], A, rel=1e-9)
        ctx.eq('reaction %d: b' % k, blk['b'], m['reactions'][k].beta)
        val, text = _num_text(ctx, blk['Ea'])
        ctx.true('reaction %d: Ea unit' % k, text == ae)
        ctx.eq('reaction %d: Ea = model value at (T, P) in the requested unit' % k, val, ea, rel=1e-9)
    names = {p['name']: p for p in doc['phases']}
    ctx.true('every phase once', sorted(names) == ['bulk', 'gas', 'terrace'] and len(doc['phases']) == 3)
    if sorted(names) == ['bulk', 'gas', 'terrace']:
        ctx.true('gas lists exactly its species and elements', names['gas']['species'] == ['H2'] and sorted(names['gas']['elements']) == ['H'])
        ctx.true('bulk lists exactly its species and elements', names['bulk']['species'] == ['PT(B)'] and sorted(names['bulk']['elements']) == ['Pt'])
        ctx.true('interface lists exactly its species and elements', names['terrace']['species'] == ['H(S)', 'PT(S)', 'O(S)']
                 and sorted(names['terrace']['elements']) == ['H', 'O', 'Pt'])
        val, text = _num_text(ctx, names['terrace']['site-density'])
        ctx.eq('interface site density in the requested units', val, _sden(m, usys), rel=1e-9)
        ctx.true('site density unit', text == '%s/%s^2' % (u['quantity'], u['length']))
    ints = doc.get('interactions', [])
    ctx.true('every interaction once with a unique id', len(ints) == 2 and len({i['id'] for i in ints}) == 2 and all(i['id'] for i in ints))
    if len(ints) == 2:
        ctx.true('user-supplied interaction id kept', ints[1]['id'] == 'lat_0007')
        ctx.true('interaction members', ints[0]['species'] == ['H(S)', 'O(S)'] and ints[1]['species'] == ['O(S)', 'O(S)'])
        conv = c.convert_unit(initial='kcal', final=u['energy']) / c.convert_unit(initial='mol', final=u['quantity'])
        for j, it in enumerate(ints):
            mdl = m['interactions'][j]
            ctx.true('interaction %d: one strength per slope' % j, len(it['strength']) == len(mdl.slopes))
            for q, (got, slope) in enumerate(zip(it['strength'], mdl.slopes)):
                val, text = _num_text(ctx, got)
                ctx.true('interaction %d strength %d unit' % (j, q), text == '%s/%s' % (u['energy'], u['quantity']))
                ctx.eq('interaction %d strength %d = slope (kcal/mol) in the requested unit' % (j, q), val, slope * conv, rel=1e-9)
            ctx.true('interaction %d: thresholds' % j, len(it['coverage-threshold']) == len(mdl.intervals))
            for q, (got, iv) in enumerate(zip(it['coverage-threshold'], mdl.intervals)):
                ctx.eq('interaction %d threshold %d' % (j, q), got, iv)
    beps = doc.get('beps', [])
    ctx.true('the BEP once, with an id and its member reaction', len(beps) == 1 and bool(beps[0].get('id')) and beps[0].get('cleavage-reactions') == ['"%s"' % rids[2]]
             and 'synthesis-reactions' not in beps[0])
    if len(beps) == 1:
        ctx.eq('BEP slope', beps[0]['slope'], m['bep'].slope)
        val, text = _num_text(ctx, beps[0]['intercept'])
        ctx.true('BEP intercept unit', text == ae)
        ctx.eq('BEP intercept in the requested unit', val, m['bep'].intercept * c.convert_unit(initial='kcal/mol', final=ae), rel=1e-9)


# ---- CTI text: numbers are located by their directive context; in symbolic runs every printed number is a token
#      (format spec + value term), in replay the text is an ordinary str and the numbers are parsed back.
def _skeleton(text):
    """-> (str with \x00k\x00 in place of the k-th printed number, [values])  for a symbolic text; (text, None) for a str"""
    from symx.symstr import SymStr, Tok
    from symx.proxy import Sym
    from symx import expr as X
    if not isinstance(text, SymStr):
        return text, None
    out, vals = [], []
    cells = text.cells
    i = 0
    while i < len(cells):
        cl = cells[i]
        if isinstance(cl, str):
            out.append(cl)
        elif isinstance(cl, Tok):
            out.append('\x00%d\x00' % len(vals))
            vals.append(cl.val)
        elif isinstance(cl, Sym) and i + 1 < len(cells) and isinstance(cells[i + 1], Tok):
            mag = cells[i + 1].val
            mag_e = mag.e if isinstance(mag, Sym) else X.const(mag)
            out.append('\x00%d\x00' % len(vals))
            vals.append(Sym(X.ite(X.eq(cl.e, X.iconst(45)), X.neg(mag_e), mag_e)))
            i += 1
        else:
            out.append('\x01')
        i += 1
    return ''.join(out), vals


_NUM = r'(?:\x00(\d+)\x00|\s*([-+]?(?:\d+\.?\d*|\.\d+)(?:[eE][-+]?\d+)?))'


def _grab(text, template):
    """all matches of a directive template; ¤ stands for one printed number, § for a quoted string -> list of tuples"""
    import re
    skel, vals = _skeleton(text)
    pat = re.escape(template).replace('¤', _NUM).replace('§', '"([^"]*)"').replace(r'\ ', r'\s*').replace('\\\n', r'\s*')
    res = []
    for mt in re.finditer(pat, skel):
        row = []
        gi = 1
        for ch in template:
            if ch == '¤':
                k, lit = mt.group(gi), mt.group(gi + 1)
                gi += 2
                row.append(vals[int(k)] if k is not None else float(lit))
            elif ch == '§':
                row.append(mt.group(gi)); gi += 1
        res.append(tuple(row))
    return res


def h_cti(ctx, id_kind, usys, motz, ads='get_H_act', explicit=False):
    import pmutt.io.omkm as mod
    from pmutt import constants as c
    ids = IDS[id_kind]
    m = _model(ctx, ids, usys, explicit)
    u = _units(usys)
    T = ctx.real('T', 300, 1000)
    P = ctx.real('P', 0.1, 20)
    text = mod.write_cti(phases=m['phases'], species=m['species'], reactions=m['reactions'], lateral_interactions=m['interactions'], units=m['units'],
                         T=T, P=P, use_motz_wise=motz, ads_act_method=ads, filename=None)
    tol = dict(rel=2e-5)        # numbers are printed with 6 significant digits
    un = _grab(text, 'units(length=§, time=§, quantity=§, energy=§,\n act_energy=§, pressure=§, mass=§)')
    ctx.true('CTI units directive', un == [(u['length'], u['time'], u['quantity'], u['energy'], u['act_energy'], u['pressure'], u['mass'])])
    stick = _grab(text, 'surface_reaction(§,\n stick(¤, ¤, ¤),\n id=§)')
    plain = _grab(text, 'surface_reaction(§,\n [¤, ¤, ¤],\n id=§)')
    ctx.true('CTI: every reaction once', len(stick) == 1 and len(plain) == 2)
    if len(stick) != 1 or len(plain) != 2:
        return
    rows = stick + plain
    rids = [r[4] for r in rows]
    ctx.true('CTI: reaction ids unique', len(set(rids)) == 3 and all(rids))
    for want, got in zip(ids, rids):
        if want is not None:
            ctx.true('CTI: user-supplied id %s kept' % want, got == want)
    ctx.true('CTI: equations', [r[0] for r in rows] == EQS)
    for k, r in enumerate(rows):
        A, ea = _want_rate(ctx, m, k, T, P, usys, ads)
        if k == 0:
            ctx.eq('CTI reaction 0: sticking coefficient', r[1], m['reactions'][0].sticking_coeff, **tol)
        else:
            ctx.eq('CTI reaction %d: A in the requested units' % k, r[1], A, **tol)
        ctx.eq('CTI reaction %d: b' % k, r[2], m['reactions'][k].beta)
        ctx.eq('CTI reaction %d: Ea = model value at (T, P) in the requested unit' % k, r[3], ea, **(tol if ctx.is_sym() else dict(rel=2e-5, tol=1e-9)))
    skel = _skeleton(text)[0]
    ctx.true('CTI: Motz-Wise directive', (('enable_motz_wise()' in skel) == bool(motz)) and (('disable_motz_wise()' in skel) != bool(motz)))
    bp = _grab(text, 'bep(id=§,\n slope=¤,\n intercept=¤,\n direction=§,\n cleavage_reactions=[§],\n synthesis_reactions=[])')
    ctx.true('CTI: the BEP once with a proper id and its member reaction', len(bp) == 1 and bp[0][0] not in ('', 'None') and bp[0][4] == rids[2]
             and bp[0][3] == 'cleavage')
    if len(bp) == 1:
        ctx.eq('CTI BEP slope', bp[0][1], m['bep'].slope)
        ctx.eq('CTI BEP intercept in the requested unit', bp[0][2], m['bep'].intercept * c.convert_unit(initial='kcal/mol', final=u['act_energy']), rel=1e-9)
    conv = c.convert_unit(initial='kcal', final=u['energy']) / c.convert_unit(initial='mol', final=u['quantity'])
    li = _grab(text, 'lateral_interaction(§,\n coverage_thresholds=[0.0, ¤],\n strengths=[¤, ¤],\n id=§)')
    l2 = _grab(text, 'lateral_interaction(§,\n coverage_thresholds=[0.0],\n strengths=[¤],\n id=§)')
    ctx.true('CTI: every interaction once with its members and a unique id', len(li) == 1 and len(l2) == 1 and li[0][0] == 'H(S) O(S)'
             and l2[0][0] == 'O(S) O(S)' and l2[0][2] == 'lat_0007' and li[0][4] not in ('', 'None', 'lat_0007'))
    if len(li) == 1 and len(l2) == 1:
        mdl = m['interactions']
        ctx.eq('CTI interaction 0 threshold', li[0][1], mdl[0].intervals[1])
        ctx.eq('CTI interaction 0 strength 0', li[0][2], mdl[0].slopes[0] * conv, rel=1e-9)
        ctx.eq('CTI interaction 0 strength 1', li[0][3], mdl[0].slopes[1] * conv, rel=1e-9)
        ctx.eq('CTI interaction 1 strength 0', l2[0][1], mdl[1].slopes[0] * conv, rel=1e-9)
    ph = _grab(text, 'interacting_interface(name=§,\n elements=§,\n species=§,\n phases=§,\n site_density=¤,')
    ctx.true('CTI: the interface once with exactly its species, elements and adjacent phases',
             len(ph) == 1 and ph[0][0] == 'terrace' and sorted(ph[0][1].split()) == ['H', 'O', 'Pt'] and ph[0][2].split() == ['H(S)', 'PT(S)', 'O(S)']
             and ph[0][3].split() == ['gas', 'bulk'])
    if len(ph) == 1:
        ctx.eq('CTI interface site density in the requested units', ph[0][4], _sden(m, usys), rel=1e-9)
    gp = _grab(text, 'ideal_gas(name=§,\n elements=§,\n species=§)')
    ctx.true('CTI: the gas once with exactly its species and elements', gp == [('gas', 'H', 'H2')])
    bk = _grab(text, 'stoichiometric_solid(name=§,\n elements=§,\n species=§,\n density=¤)')
    ctx.true('CTI: the bulk once with exactly its species and elements', len(bk) == 1 and bk[0][:3] == ('bulk', 'Pt', 'PT(B)'))
    if len(bk) == 1:
        ctx.eq('CTI bulk density in the requested units', bk[0][3],
               m['bulk'].density * c.convert_unit(initial='g', final=u['mass']) / c.convert_unit(initial='cm3', final=u['length'] + '3'), rel=1e-9)
    ctx.true('CTI: each species once', all(len(_grab(text, 'species(name="%s")' % s.name)) == 1 for s in m['species']))
    rr = _grab(text, 'interactions=[§, §],\n reactions=[§],')
    ctx.true('CTI: the interface refers to every reaction and interaction id',
             len(rr) == 1 and sorted(rr[0][:2]) == sorted([li[0][4] if li else '', 'lat_0007']) and (
                 rr[0][2] == '%s to %s' % (min(rids), max(rids)) if id_kind in ('auto', 'user') else True))


# ------------------------------------------------------------------------------------ species emitters
def h_species(ctx, kind, order=(0, 1, 2)):
    import numpy as np_real
    from pmutt.empirical.nasa import Nasa, Nasa9, SingleNasa9
    from pmutt.empirical.shomate import Shomate
    elements = {'C': 1, 'O': 2}
    n_sites = ctx.choose('n_sites', [None, 1, 2])
    if kind == 'nasa':
        a_low = [ctx.real('a_low%d' % i, -50, 50) for i in range(7)]
        a_high = [ctx.real('a_high%d' % i, -50, 50) for i in range(7)]
        Tl, Tm, Th = ctx.real('T_low', 100, 400), ctx.real('T_mid', 500, 900), ctx.real('T_high', 1000, 3000)
        sp = Nasa(name='CO2', T_low=Tl, T_mid=Tm, T_high=Th, a_low=np_array(ctx, a_low), a_high=np_array(ctx, a_high), elements=elements, n_sites=n_sites)
        y = sp.to_omkm_yaml()
        ctx.true('NASA7 yaml: name, composition, model', y['name'] == 'CO2' and y['composition'] == elements and y['thermo']['model'] == 'NASA7')
        ctx.true('NASA7 yaml: site occupancy', (y.get('sites') == n_sites) if n_sites is not None else 'sites' not in y)
        tr = y['thermo']['temperature-ranges']
        ctx.true('NASA7 yaml: three range bounds, two coefficient sets of 7', len(tr) == 3 and [len(d) for d in y['thermo']['data']] == [7, 7])
        for got, want, nm in zip(tr, (Tl, Tm, Th), ('T_low', 'T_mid', 'T_high')):
            ctx.eq('NASA7 yaml: %s' % nm, got, want)
        for i in range(7):
            ctx.eq('NASA7 yaml: a_low[%d]' % i, y['thermo']['data'][0][i], a_low[i])
            ctx.eq('NASA7 yaml: a_high[%d]' % i, y['thermo']['data'][1][i], a_high[i])
        text = sp.to_cti()
        size = '' if n_sites is None else ' size=%d,' % n_sites
        g = _grab(text, 'species(name=§, atoms=§,' + size + '\n thermo=(NASA([¤, ¤],\n [¤, ¤, ¤,\n ¤, ¤, ¤,\n ¤]),\n NASA([¤, ¤], \n [¤, ¤, ¤,\n ¤, ¤, ¤,\n ¤])))')
        ctx.true('NASA7 cti: one species directive with name, atoms and size', len(g) == 1 and g[0][:2] == ('CO2', 'C:1 O:2'))
        if len(g) == 1:
            want = [Tl, Tm] + a_low + [Tm, Th] + a_high
            for j, (got, w) in enumerate(zip(g[0][2:], want)):
                ctx.eq('NASA7 cti: number %d (ranges and coefficients in order)' % j, got, w, rel=2e-8, tol=1e-12)
    elif kind == 'nasa9':
        bounds = [200., 1000., 6000., 20000.]
        segs = []
        for k in range(3):
            segs.append(SingleNasa9(T_low=bounds[k], T_high=bounds[k + 1], a=np_array(ctx, [ctx.real('a%d_%d' % (k, i), -50, 50) for i in range(9)])))
        given = [segs[k] for k in order]
        sp = Nasa9(name='CO2', nasas=given, elements=elements, n_sites=n_sites)
        y = sp.to_omkm_yaml()
        ctx.true('NASA9 yaml: name, composition, model', y['name'] == 'CO2' and y['composition'] == elements and y['thermo']['model'] == 'NASA9')
        ctx.true('NASA9 yaml: site occupancy', (y.get('sites') == n_sites) if n_sites is not None else 'sites' not in y)
        tr = y['thermo']['temperature-ranges']
        ctx.true('NASA9 yaml: ascending range bounds', [float(t) for t in tr] == bounds)
        ctx.true('NASA9 yaml: one coefficient set of 9 per range', [len(d) for d in y['thermo']['data']] == [9, 9, 9])
        if len(y['thermo']['data']) == 3:
            for k in range(3):
                for i in range(9):
                    ctx.eq('NASA9 yaml: range %d coefficient %d belongs to that range' % (k, i), y['thermo']['data'][k][i], segs[k].a[i])
        text = sp.to_cti()
        g = _grab(text, 'NASA([¤, ¤],\n [¤, ¤, ¤,\n ¤, ¤, ¤,\n ¤, ¤, ¤])')
        ctx.true('NASA9 cti: one NASA entry per range', len(g) == 3)
        if len(g) == 3:
            for row in g:
                k = bounds.index(float(row[0])) if float(row[0]) in bounds[:3] else None
                ctx.true('NASA9 cti: range bounds pair up', k is not None and float(row[1]) == bounds[k + 1])
                if k is not None:
                    for i in range(9):
                        ctx.eq('NASA9 cti: range %d coefficient %d' % (k, i), row[2 + i], segs[k].a[i], rel=2e-8, tol=1e-12)
    else:
        a = [ctx.real('a%d' % i, -50, 50) for i in range(8)]
        Tl, Th = ctx.real('T_low', 100, 400), ctx.real('T_high', 1000, 3000)
        sp = Shomate(name='CO2', T_low=Tl, T_high=Th, a=np_array(ctx, a), elements=elements, n_sites=n_sites)
        y = sp.to_omkm_yaml()
        ctx.true('Shomate yaml: name, composition, model', y['name'] == 'CO2' and y['composition'] == elements and y['thermo']['model'] == 'Shomate')
        ctx.true('Shomate yaml: site occupancy', (y.get('sites') == n_sites) if n_sites is not None else 'sites' not in y)
        tr = y['thermo']['temperature-ranges']
        ctx.true('Shomate yaml: two range bounds, one coefficient set of 7', len(tr) == 2 and [len(d) for d in y['thermo']['data']] == [7])
        ctx.eq('Shomate yaml: T_low', tr[0], Tl)
        ctx.eq('Shomate yaml: T_high', tr[1], Th)
        for i in range(7):
            ctx.eq('Shomate yaml: a[%d]' % i, y['thermo']['data'][0][i], a[i])
        text = sp.to_cti()
        size = '' if n_sites is None else ' size=%d,' % n_sites
        g = _grab(text, 'species(name=§, atoms=§,' + size + '\n thermo=Shomate([¤, ¤],\n [¤, ¤, ¤,\n ¤, ¤, ¤,\n ¤]))')
        ctx.true('Shomate cti: one species directive with name, atoms and size', len(g) == 1 and g[0][:2] == ('CO2', 'C:1 O:2'))
        if len(g) == 1:
            for j, (got, w) in enumerate(zip(g[0][2:], [Tl, Th] + a[:7])):
                ctx.eq('Shomate cti: number %d' % j, got, w, rel=2e-8, tol=1e-12)


# ------------------------------------------------------------------------------------ phase histories
def h_phase_history(ctx, ops):
    """two coexisting interfaces - one populated at construction, one empty - edited by a sequence of list operations stay
    independent and keep listing exactly their species and elements; run twice: with the element list looked at after
    every operation, and with it looked at only before the first and after the last operation"""
    for read_each in (True, False):
        _phase_history(ctx, ops, read_each)


def _phase_history(ctx, ops, read_each):
    from pmutt.omkm.phase import InteractingInterface
    from pmutt.omkm.units import Units
    COMPOSITION = [{'H': 1}, {'C': 1, 'H': 1}, {'O': 1}, {'N': 1, 'O': 1}]

    class S:
        def __init__(self, i):
            self.name = 'A%d' % i
            self.elements = dict(COMPOSITION[i])
            self.phase = None
    pool = [S(i) for i in range(4)]

    def elems(mdl):
        out = set()
        for s_ in mdl:
            out |= set(s_.elements)
        return out
    ph = [InteractingInterface(name='p0', site_density=1e-9, species=[pool[3]]), InteractingInterface(name='p1', site_density=1e-9)]
    model = [[pool[3]], []]
    seen = [{3}, set()]
    stale = []
    for w2 in (0, 1):           # both phases are looked at once before anything is edited (e.g. a file was written)
        if set(ph[w2].elements) != elems(model[w2]):
            stale.append(w2)
    for (w, op, arg) in ops:
        if op in ('append', 'extend'):
            seen[w].update([arg] if op == 'append' else [arg, (arg + 1) % 4])
        p, mdl = ph[w], model[w]
        if op == 'append':
            p.append_species(pool[arg]); mdl.append(pool[arg])
        elif op == 'extend':
            p.extend_species([pool[arg], pool[(arg + 1) % 4]]); mdl.extend([pool[arg], pool[(arg + 1) % 4]])
        elif op == 'remove':
            if pool[arg] in mdl:
                p.remove_species(pool[arg].name); mdl.remove(pool[arg])
        elif op == 'pop':
            if mdl:
                p.pop_species(0); mdl.pop(0)
        elif op == 'clear':
            p.clear_species(); mdl.clear()
        if read_each:
            for w2 in (0, 1):
                if set(ph[w2].elements) != elems(model[w2]):
                    stale.append(w2)
    how = 'elements read after every operation' if read_each else 'elements read before and after the edits only'
    hist = ' [%s] after ' % how + '; '.join('p%d.%s(%s)' % (w, op, 'A%d' % a if op != 'pop' and op != 'clear' else '') for w, op, a in ops)

    def chk(label, ok):
        ctx.true(label if ok else label + hist, ok)
    for w in (0, 1):
        chk('phase %d lists exactly its own species in order' % w, list(ph[w].species) == model[w])
        chk('phase %d elements are those of its species' % w, set(ph[w].elements) == elems(model[w]))
        chk('phase %d elements were those of its species whenever they were looked at' % w, w not in stale)
        y = ph[w].to_omkm_yaml(units=Units())
        chk('phase %d YAML lists exactly its species and elements' % w, y['species'] == [s.name for s in model[w]]
            and sorted(y['elements']) == sorted(elems(model[w])))
        chk('phase %d: every species only ever added there points back to it' % w,
            all(s.phase is ph[w] for s in ph[w].species if pool.index(s) not in seen[1 - w]))


def groups(tier):
    th = tier == 'thorough'
    g = []
    for grp in GROUPS:
        for pk in ('list', 'dict'):
            if pk == 'dict' and grp != 'reactor':
                continue
            g.append(dict(name='reactor-yaml/%s/phases=%s' % (grp, pk), harness=h_reactor, params=dict(group=grp, phases_kind=pk), no_validate=True,
                          max_paths=2000))
    g.append(dict(name='reactor-yaml/value-kinds', harness=h_reactor_kinds, no_validate=True))
    g.append(dict(name='reactor-yaml/phases-omitted', harness=h_reactor_no_phases, no_validate=True))
    for idk in ('auto', 'user', 'mixed', 'clash'):
        for usys in (UNIT_SYSTEMS if (th or idk == 'auto') else ['default']):
            for motz, ads in (((False, 'get_H_act'), (True, 'get_G_act')) if idk == 'auto' else ((False, 'get_H_act'),)):
                if usys != 'default' and motz and not th:
                    continue
                for nm, hh in (('thermo-yaml', h_thermo_yaml), ('cti', h_cti)):
                    g.append(dict(name='%s/ids=%s/units=%s/motz=%s/%s' % (nm, idk, usys, motz, ads), harness=hh,
                                  params=dict(id_kind=idk, usys=usys, motz=motz, ads=ads), no_validate=True, max_paths=400))
    for usys in UNIT_SYSTEMS:
        for nm, hh in (('thermo-yaml', h_thermo_yaml), ('cti', h_cti)):
            g.append(dict(name='%s/user-supplied-A-Ea/units=%s' % (nm, usys), harness=hh,
                          params=dict(id_kind='auto', usys=usys, motz=False, explicit=True), no_validate=True, max_paths=400))
    for kind in ('nasa', 'shomate'):
        g.append(dict(name='species/%s' % kind, harness=h_species, params=dict(kind=kind), no_validate=True))
    for order in itertools.permutations(range(3)):
        g.append(dict(name='species/nasa9/segments-given-as-%s' % ''.join(map(str, order)), harness=h_species, params=dict(kind='nasa9', order=order),
                      no_validate=True))
    OPS = [(w, op, a) for w in (0, 1) for op, a in (('append', 0), ('append', 1), ('extend', 2), ('remove', 0), ('pop', 0), ('clear', 0))]
    n = 4 if th else 3
    seqs = [s for k in range(1, n + 1) for s in itertools.product(OPS, repeat=k)]
    chunk = 200
    for i in range(0, len(seqs), chunk):
        g.append(dict(name='phase-history/%d-%d' % (i, min(i + chunk, len(seqs)) - 1), harness=h_phase_histories, params=dict(seqs=seqs[i:i + chunk]),
                      no_validate=True))
    return g


def h_phase_histories(ctx, seqs):
    for s in seqs:
        h_phase_history(ctx, s)
