"""C16  Equilibrium compositions conserve atoms and minimise Gibbs energy (partial: everything around SLSQP)."""
from checks.common import *

META = dict(
    functions=['pmutt.equilibrium.Equilibrium.__init__/_objective/_objective_jac/_constraints1_eq/_constraints1_eq_jac/get_net_comp'],
    bounds=dict(quick='2-4 species; element matrices: concrete compositions over 1-4 elements in several species orders (incl. an element that '
                      'no species contains and elements first met in later species); amounts x > 0, Gibbs energies, pressure, feeds, T, P '
                      'symbolic; 1-2 successive get_net_comp calls on one object'),
    outside_claim=['that SLSQP returns a KKT point of the convex problem it is handed (SciPy contract): atom conservation, non-negativity, '
                   'optimality and order-independence of the numerical result follow from (a)-(d) plus that contract and are not decided here',
                   'symbolic composition matrices', 'IEEE rounding'],
    stubs=['scipy.optimize.minimize: captures its arguments; returns an arbitrary x (symbolic, > 0) and a symbolic/concrete success flag'],
    assumptions=[],
)


class Sp:
    def __init__(self, ctx, name, elements):
        self.name = name
        self.elements = dict(elements)
        self.g0 = ctx.real('%s.G0' % name, -60, 60)
        self.g1 = ctx.real('%s.G1' % name, -0.01, 0.01)

    def get_GoRT(self, T=999.0, **kw):
        return self.g0 + self.g1 * T


NETWORKS = {
    'H2-O2-H2O': [('H2', {'H': 2}), ('O2', {'O': 2}), ('H2O', {'H': 2, 'O': 1})],
    'H2O-first': [('H2O', {'H': 2, 'O': 1}), ('H2', {'H': 2}), ('O2', {'O': 2})],
    'CO-CO2-O2+zero-col': [('CO', {'C': 1, 'O': 1, 'N': 0}), ('CO2', {'C': 1, 'O': 2, 'N': 0}), ('O2', {'O': 2, 'C': 0, 'N': 0})],
    'late-elements': [('H2', {'H': 2}), ('CH4', {'C': 1, 'H': 4}), ('H2O', {'H': 2, 'O': 1}), ('HCN', {'H': 1, 'C': 1, 'N': 1})],
    'single-element': [('O2', {'O': 2}), ('O3', {'O': 3})],
    'late-elements-2': [('N2', {'N': 2}), ('NH3', {'N': 1, 'H': 3}), ('NO', {'N': 1, 'O': 1}), ('H2O', {'H': 2, 'O': 1})],
}


def _build(ctx, net):
    from pmutt.equilibrium import Equilibrium
    sps = [Sp(ctx, n, e) for n, e in NETWORKS[net]]
    feed = {s.name: ctx.real('feed_%s' % s.name, 0, 100) for s in sps}
    eq = Equilibrium(model=list(sps), network=dict(feed))
    return eq, sps, feed


def h_matrix(ctx, net):
    eq, sps, feed = _build(ctx, net)
    els = sorted({e for s in sps for e, n in s.elements.items() if n})
    ctx.true('elements kept = elements some species contains', sorted(eq.elements) == els)
    ctx.true('species in network order', list(eq.species) == [s.name for s in sps])
    ok_shape = tuple(eq.mol_elem.shape) == (len(sps), len(els)) and len(eq.ele_feed) == len(els) and len(eq.elements) == len(els)
    ctx.true('element matrix has one row per species and one column per kept element', ok_shape)
    if not ok_shape:
        return
    for j, e in enumerate(eq.elements):
        tot = 0
        for i, s in enumerate(sps):
            ctx.eq('mol_elem[%s,%s] = number of %s atoms in %s' % (s.name, e, e, s.name), eq.mol_elem[i, j], float(s.elements.get(e, 0)))
            tot = tot + feed[s.name] * s.elements.get(e, 0)
        ctx.eq('feed total of %s = sum feed x count' % e, eq.ele_feed[j], tot)
    # atom-balance constraint: linear, zero at the feed itself
    x = [ctx.real('x_%s' % s.name, 1e-20, 1e3) for s in sps]
    cons = eq._constraints1_eq(np_array(ctx, x))
    for j, e in enumerate(eq.elements):
        want = 0
        for i, s in enumerate(sps):
            want = want + (x[i] - feed[s.name]) * s.elements.get(e, 0)
        ctx.eq('atom-balance constraint for %s = atoms(x) - atoms(feed)' % e, cons[j], want)
    J = eq._constraints1_eq_jac(np_array(ctx, x))
    ctx.true('constraint Jacobian shape (elements, species)', tuple(J.shape) == (len(els), len(sps)))
    if tuple(J.shape) == (len(els), len(sps)):
        for j, e in enumerate(eq.elements):
            for i, s in enumerate(sps):
                ctx.eq('d constraint[%s] / d x[%s] = atom count' % (e, s.name), J[j, i], float(s.elements.get(e, 0)))
    from pmutt import constants as c
    for i, s in enumerate(sps):
        mw = 0
        for e, n in s.elements.items():
            mw = mw + n * c.atomic_weight[e]
        ctx.eq('molar mass of %s' % s.name, eq.species_mw[i], mw, rel=1e-12)


def h_gradient(ctx, n):
    """_objective_jac is the gradient of _objective (total Gibbs energy / RT of an ideal mixture)"""
    from pmutt.equilibrium import Equilibrium
    eq = Equilibrium.__new__(Equilibrium)
    x = [ctx.real('x%d' % i, 1e-6, 1e3) for i in range(n)]
    g = [ctx.real('g%d' % i, -60, 60) for i in range(n)]
    p = ctx.real('p', 0.01, 110)
    jac = eq._objective_jac(np_array(ctx, x), list(g), p)
    ctx.true('gradient has one entry per species', len(jac) == n)
    for i in range(n):
        def f(xi, i=i):
            xx = list(x)
            xx[i] = xi
            return eq._objective(np_array(ctx, xx), list(g), p)
        ctx.eq('jac[%d] = d objective / d x%d' % (i, i), jac[i], ctx.deriv(f, x[i]), info='deriv')
    # textbook: G/RT = sum x_i (g_i + ln(x_i p / n_T))
    nT = sum(x[1:], x[0])
    want = 0
    for i in range(n):
        want = want + x[i] * (g[i] + log(ctx, x[i]) + log(ctx, p) - log(ctx, nT))
    ctx.eq('objective = total Gibbs energy of the ideal mixture', eq._objective(np_array(ctx, x), list(g), p), want)


def h_solve(ctx, net, success, ncalls, status=9):
    """arguments handed to the minimiser, result assembly, and signalling of non-convergence"""
    import pmutt.equilibrium._equilibrium as mod
    import warnings
    eq, sps, feed = _build(ctx, net)
    calls = []
    saved = mod.minimize

    class Sol:
        pass

    def minimize(fun, x0, args=(), jac=None, method=None, options=None, bounds=None, constraints=None, **kw):
        calls.append(dict(fun=fun, x0=x0, args=args, jac=jac, method=method, options=options, bounds=bounds, constraints=constraints))
        sol = Sol()
        k = len(calls)
        sol.x = np_array(ctx, [ctx.real('sol%d_x_%s' % (k, s.name), 1e-20, 1e3) for s in sps])
        sol.success = success
        sol.message = 'stub'
        sol.status = 0 if success else status        # SLSQP exit modes 1-9 are all failures
        return sol
    mod.minimize = minimize
    try:
        for k in range(ncalls):
            T = ctx.real('T%d' % k, 300, 2500)
            P = ctx.real('P%d' % k, 0.01, 100)
            with warnings.catch_warnings(record=True) as w:
                warnings.simplefilter('always')
                try:
                    res = eq.get_net_comp(T=T, P=P)
                    raised = False
                except Exception:
                    raised = True
            if not success:
                ctx.true('non-convergence is signalled (warning or exception), call %d' % k, raised or len(w) > 0)
                if raised:
                    continue
            else:
                ctx.true('no exception on success, call %d' % k, not raised)
                if raised:
                    continue
            cl = calls[-1]
            g, p = cl['args'][0], cl['args'][1]
            ctx.true('one Gibbs energy per species, call %d' % k, len(g) == len(sps))
            if len(g) == len(sps):
                for i, s in enumerate(sps):
                    ctx.eq('Gibbs energy of %s handed to the minimiser is G/RT at the requested T, call %d' % (s.name, k), g[i], s.get_GoRT(T=T))
            ctx.eq('pressure handed to the minimiser is P in bar, call %d' % k, p, P * 1.01325)
            ctx.true('objective, gradient, atom-balance constraint handed over, call %d' % k,
                     cl['fun'] == eq._objective and cl['jac'] == eq._objective_jac and cl['constraints']['type'] == 'eq'
                     and cl['constraints']['fun'] == eq._constraints1_eq)
            if hasattr(eq, 'maxiter'):
                ctx.true('iteration limit handed to the minimiser is the one the object carries (maxiter), call %d' % k,
                         (cl['options'] or {}).get('maxiter') == eq.maxiter)
            ctx.true('lower bounds positive (no negative amounts), call %d' % k, all(b[0] > 0 for b in cl['bounds']) and len(cl['bounds']) == len(sps))
            xs = [ctx.real('sol%d_x_%s' % (len(calls), s.name), 1e-20, 1e3) for s in sps]
            tot = sum(xs[1:], xs[0])
            ctx.true('species reported in network order, call %d' % k, list(res.species) == [s.name for s in sps])
            fr = 0
            for i in range(len(sps)):
                ctx.eq('moles[%d] is the minimiser solution, call %d' % (i, k), res.moles[i], xs[i])
                ctx.eq('mole fraction[%d] = moles / total, call %d' % (i, k), res.mole_frac[i], xs[i] / tot)
                fr = fr + res.mole_frac[i]
            ctx.eq('mole fractions sum to one, call %d' % k, fr, 1.0)
            ctx.eq('T reported, call %d' % k, res.T, T)
            ctx.eq('P reported, call %d' % k, res.P, P)
    finally:
        mod.minimize = saved


def groups(tier):
    g = []
    for net in NETWORKS:
        g.append(dict(name='matrix/%s' % net, harness=h_matrix, params=dict(net=net)))
    for n in ((2, 3, 4) if tier == 'thorough' else (2, 3)):
        g.append(dict(name='gradient/%d species' % n, harness=h_gradient, params=dict(n=n), timeout_ms=120000))
    for net in ('H2-O2-H2O', 'late-elements'):
        g.append(dict(name='solve/%s/success/2 calls' % net, harness=h_solve, params=dict(net=net, success=True, ncalls=2), no_validate=True))
        for status in ((1, 2, 3, 4, 5, 6, 7, 8, 9) if net == 'H2-O2-H2O' else (9,)):
            g.append(dict(name='solve/%s/not-converged/SLSQP-exit-mode-%d' % (net, status), harness=h_solve,
                          params=dict(net=net, success=False, ncalls=1, status=status), no_validate=True))
    return g
