"""C13  Pressure and coverage corrections are added exactly once per attached model."""
from checks.common import *

META = dict(
    functions=['pmutt.empirical.EmpiricalBase.__init__/to_dict/from_dict', 'pmutt.empirical.GasPressureAdj.*',
               'pmutt.mixture._get_mix_quantity', 'pmutt._get_specie_kwargs/_get_mode_quantity', 'Nasa/Nasa9/Shomate.get_CpoR/get_HoRT/'
               'get_SoR/get_GoRT (misc-model summation) and to_dict/from_dict', 'pmutt.mixture.cov.PiecewiseCovEffect.get_*'],
    bounds=dict(quick='Nasa, Nasa9 (1 segment), Shomate x phases g/gas/G/s/S/None x 11 attached-model lists (0-3 models: pressure adjustment '
                      'object / dict form, 2-breakpoint coverage effects with symbolic table, protocol stub model) x constructed / '
                      'reloaded once / twice x add_gas_P_adj on/off; T scalar and 2-element arrays, P in [1e-3,1e2], coverage in [0,1]; '
                      'the attached-model lists are a VERIF_SEED-rotated subset per (class, phase) in quick, all in thorough',
                thorough='all model lists for every class/phase; arrays of 3 temperatures'),
    outside_claim=['arrays longer than 3', 'more than 3 attached models', 'IEEE rounding'],
    stubs=['protocol stub misc model (affine in the T, P it receives)'],
    assumptions=['polynomial coefficients symbolic; bare value = the same class built without phase and models (its correctness is C02)'],
)

COV_J = 'CO(S)'


class StubMisc:
    def __init__(self, ctx, tag):
        self.c = {q: [ctx.real('%s.%s.c%d' % (tag, q, i), -5, 5) for i in range(3)] for q in ('CpoR', 'HoRT', 'SoR', 'GoRT')}
        for q in self.c:
            def mk(q):
                def getter(T=777.0, P=3.0):
                    return self.val(q, T, P)
                return getter
            setattr(self, 'get_' + q, mk(q))

    def val(self, q, T, P):
        if q == 'GoRT':
            return self.val('HoRT', T, P) - self.val('SoR', T, P)
        c = self.c[q]
        return c[0] + c[1] * T * 1e-3 + c[2] * P


def _species(ctx, kind, phase, models, add_adj=True, tag=''):
    """real empirical species with symbolic coefficients"""
    import numpy as np
    kw = dict(name='sp', phase=phase, misc_models=models)
    if not add_adj:
        kw['add_gas_P_adj'] = False
    if kind == 'Nasa':
        from pmutt.empirical.nasa import Nasa
        al = [ctx.real('al%d' % i, -10, 10) for i in range(7)]
        ah = [ctx.real('ah%d' % i, -10, 10) for i in range(7)]
        return Nasa(T_low=200., T_mid=1000., T_high=3500., a_low=np_array(ctx, al), a_high=np_array(ctx, ah), **kw)
    if kind == 'Nasa9':
        from pmutt.empirical.nasa import Nasa9, SingleNasa9
        a = [ctx.real('a%d' % i, -10, 10) for i in range(9)]
        return Nasa9(nasas=[SingleNasa9(T_low=200., T_high=3500., a=np_array(ctx, a))], **kw)
    from pmutt.empirical.shomate import Shomate
    a = [ctx.real('a%d' % i, -10, 10) for i in range(8)]
    return Shomate(T_low=200., T_high=3500., a=np_array(ctx, a), **kw)


def _first(v):
    import numpy as np
    if isinstance(v, np.ndarray):
        assert v.size == 1
        return v.ravel()[0]
    return v


def _make_models(ctx, spec):
    """spec: tuple of 'adj' | 'adjdict' | 'cov' | 'cov2' | 'stub'; returns (list, descriptors)"""
    from pmutt.empirical import GasPressureAdj
    from pmutt.mixture.cov import PiecewiseCovEffect
    if spec is None:
        return None, []
    out, desc = [], []
    for i, m in enumerate(spec):
        if m == 'adj':
            out.append(GasPressureAdj())
            desc.append(('adj',))
        elif m == 'adjdict':
            out.append({'class': "<class 'pmutt.empirical.GasPressureAdj'>"})
            desc.append(('adj',))
        elif m in ('cov', 'cov2'):
            b1 = ctx.real('%s%d.b1' % (m, i), 0.01, 0.99)
            s0 = ctx.real('%s%d.s0' % (m, i), -50, 50)
            s1 = ctx.real('%s%d.s1' % (m, i), -50, 50)
            nj = COV_J if m == 'cov' else 'O(S)'
            out.append(PiecewiseCovEffect(name_i='sp', name_j=nj, intervals=[0., b1], slopes=[s0, s1]))
            desc.append(('cov', nj, b1, s0, s1))
        else:
            sm = StubMisc(ctx, 'stub%d' % i)
            out.append(sm)
            desc.append(('stub', sm))
    return out, desc


def _cov_energy(d, x):
    _, nj, b1, s0, s1 = d
    if x < b1:
        return s0 * x
    return s0 * b1 + s1 * (x - b1)


def _expected_extra(ctx, desc, n_adj, q, T, P, xs):
    from pmutt import constants as c
    tot = 0.0
    for d in desc:
        if d[0] == 'cov':
            if q in ('HoRT', 'GoRT'):
                tot = tot + _cov_energy(d, xs[d[1]]) / (c.R('kcal/mol/K') * T)
        elif d[0] == 'stub':
            tot = tot + d[1].val(q, T, P)
    if q == 'SoR':
        tot = tot - n_adj * log(ctx, P)
    elif q == 'GoRT':
        tot = tot + n_adj * log(ctx, P)
    return tot


def h_attached(ctx, kind, phase, spec, life, add_adj, nT, per_species_x):
    models, desc = _make_models(ctx, spec)
    sp = _species(ctx, kind, phase, models, add_adj)
    bare = _species(ctx, kind, None, None)
    cls = type(sp)
    for _ in range(life):
        sp = cls.from_dict(sp.to_dict())
    gas = phase is not None and phase.lower() in ('g', 'gas')
    user_adj = sum(1 for d in desc if d[0] == 'adj')
    n_adj = (max(1, user_adj) if add_adj else user_adj) if gas else user_adj
    from pmutt.empirical import GasPressureAdj
    have = sum(1 for m in (sp.misc_models or []) if isinstance(m, GasPressureAdj))
    ctx.true('number of pressure adjustments carried = %d' % n_adj, have == n_adj)
    P = ctx.real('P', 1e-3, 1e2)
    xs = {COV_J: ctx.real('x_CO', 0, 1), 'O(S)': ctx.real('x_O', 0, 1)}
    kw = dict(P=P)
    if per_species_x:
        kw['%s_kwargs' % COV_J] = {'x': xs[COV_J]}
        kw['O(S)_kwargs'] = {'x': xs['O(S)']}
    else:
        kw['x'] = xs[COV_J]
        xs = {COV_J: xs[COV_J], 'O(S)': xs[COV_J]}
    Ts = [ctx.real('T%d' % i, 200, 3500) for i in range(nT)]
    for q in ('CpoR', 'HoRT', 'SoR', 'GoRT'):
        getter = getattr(sp, 'get_' + q)
        bgetter = getattr(bare, 'get_' + q)
        if nT == 1:
            T = Ts[0]
            got = _first(getter(T=T, **kw))
            want = _first(bgetter(T=T)) + _expected_extra(ctx, desc, n_adj, q, T, P, xs)
            ctx.eq('%s = bare + sum of attached contributions' % q, got, want)
            if per_species_x and q in ('HoRT', 'GoRT'):
                # the order in which the caller lists the per-species blocks must not matter (one name is a suffix of the other)
                kw_rev = dict(P=P)
                kw_rev['O(S)_kwargs'] = {'x': xs['O(S)']}
                kw_rev['%s_kwargs' % COV_J] = {'x': xs[COV_J]}
                ctx.eq('%s = bare + sum of attached contributions (per-species blocks listed in the other order)' % q, _first(getter(T=T, **kw_rev)), want)
        else:
            got = getter(T=np_array(ctx, Ts), **kw)
            ctx.true('%s array: one value per temperature' % q, len(got) == nT)
            if len(got) != nT:
                continue
            for i, T in enumerate(Ts):
                want = _first(bgetter(T=T)) + _expected_extra(ctx, desc, n_adj, q, T, P, xs)
                ctx.eq('%s[%d] = bare + sum of attached contributions' % (q, i), got[i], want)
    if gas and n_adj == 1 and nT == 1 and not any(d[0] == 'stub' for d in desc):
        T = Ts[0]
        s1 = _first(sp.get_SoR(T=T, **dict(kw, P=1.0)))
        ctx.eq('S(P) = S(1 bar) - ln(P/bar)', _first(sp.get_SoR(T=T, **kw)), s1 - log(ctx, P))
        g1 = _first(sp.get_GoRT(T=T, **dict(kw, P=1.0)))
        ctx.eq('G(P) = G(1 bar) + RT ln(P/bar)', _first(sp.get_GoRT(T=T, **kw)), g1 + log(ctx, P))


SPECS = [None, (), ('adj',), ('adjdict',), ('cov',), ('cov', 'adj'), ('adj', 'cov'), ('cov', 'cov2'), ('stub',), ('cov', 'stub', 'adj'),
         ('stub', 'cov'), ('cov', 'cov2', 'adj')]
PHASES = ['g', 'gas', 'G', 's', 'S', None]


def _name(kind, phase, spec, life, add_adj, nT, psx):
    return '%s/phase=%s/models=%s/reload%d/%s/%dT/%s' % (kind, phase, 'None' if spec is None else ('+'.join(spec) or 'empty'), life,
                                                          'auto-adj' if add_adj else 'add_gas_P_adj=False', nT,
                                                          'x-per-species' if psx else 'x-common')


def groups(tier):
    import os
    th = tier == 'thorough'
    seed = int(os.environ.get('VERIF_SEED', '0') or 0)
    g = []
    k = 0
    for kind in ('Nasa', 'Nasa9', 'Shomate'):
        for pi, phase in enumerate(PHASES):
            for si, spec in enumerate(SPECS):
                k += 1
                if not th and (si + pi + seed) % 3 != 0 and spec not in (None, ('cov', 'adj')):
                    continue
                if spec == ('adjdict',) and phase not in ('g', 'gas', 'G'):
                    continue        # the dictionary form is only meaningful for gas species (it is what to_dict stores for them)
                has_stub = spec is not None and 'stub' in spec
                lives = [0] if has_stub else ([0, 1, 2] if (th or (k + seed) % 2 == 0) else [0, 1])
                for life in lives:
                    for nT in ((1, 2, 3) if th else ((1, 2) if life == 0 else (1,))):
                        psx = bool((k + life + nT) % 2) and spec is not None and ('cov2' in spec)
                        g.append(dict(name=_name(kind, phase, spec, life, True, nT, psx), harness=h_attached,
                                      params=dict(kind=kind, phase=phase, spec=spec, life=life, add_adj=True, nT=nT, per_species_x=psx)))
        for spec in (None, ('cov',), ('adj',)):
            g.append(dict(name=_name(kind, 'G', spec, 0, False, 1, False), harness=h_attached,
                          params=dict(kind=kind, phase='G', spec=spec, life=0, add_adj=False, nT=1, per_species_x=False)))
    return g
