"""C04  Values with units equal the dimensionless values times R (and T) in that unit."""
from checks.common import *
from checks.stubs import StubSpecies, ref_val

META = dict(
    functions=['pmutt._ModelBase.get_Cv/Cp/U/H/S/F/G', 'pmutt._get_R_adj/_get_mass_unit/get_molecular_weight', 'pmutt.constants.R',
               'pmutt.statmech.StatMech.get_Cv/Cp/U/H/S/F/G/E', 'Nasa/Nasa9/Shomate.get_Cp/get_H/get_S/get_G',
               'pmutt.reaction.Reaction.get_*_state / get_delta_* / get_*_act (dimensional forms)'],
    bounds=dict(quick='every key of the R table plus its /g and /kg variants (one VERIF_SEED-rotated third of the unit keys per getter in quick, '
                      'all in thorough); T scalar (and 2-element arrays for the empirical classes), P, coverage-like option values, '
                      'element counts and all model values symbolic; options P, S_elements, use_references, verbose, rev, act',
                thorough='all unit keys for every getter'),
    outside_claim=['IEEE rounding'],
    stubs=['attached misc model / mode / species stubs whose values are affine in the T, P they receive (make option forwarding observable)'],
    assumptions=['unit keys enumerated (configuration); per-mass forms use the species elements'],
)

R_MOLAR = ['J/mol/K', 'kJ/mol/K', 'L kPa/mol/K', 'cm3 kPa/mol/K', 'm3 Pa/mol/K', 'cm3 MPa/mol/K', 'm3 bar/mol/K', 'L bar/mol/K',
           'L torr/mol/K', 'cal/mol/K', 'kcal/mol/K', 'L atm/mol/K', 'cm3 atm/mol/K']
R_MOLEC = ['eV/K', 'Eh/K', 'Ha/K']
ELEMENTS = {'C': 1, 'H': 4, 'O': 1}


def all_units():
    us = list(R_MOLAR) + list(R_MOLEC)
    for u in R_MOLAR:
        us.append(u.replace('/mol', '/g'))
        us.append(u.replace('/mol', '/kg'))
    return us


def pick_units(tier, salt):
    import os
    us = all_units()
    if tier == 'thorough':
        return us
    seed = int(os.environ.get('VERIF_SEED', '0') or 0)
    sel = [u for i, u in enumerate(us) if (i + seed + salt) % 3 == 0]
    for must in ('J/mol/K', 'J/g/K', 'kJ/kg/K', 'eV/K'):
        if must not in sel and (salt % 2 == 0):
            sel.append(must)
    return sel


def R_expected(u, M):
    """R in unit u for a species of molar mass M g/mol, from the molar table value"""
    from pmutt import constants as c
    if '/g/' in u:
        return c.R(u.replace('/g/', '/mol/')) / M
    if '/kg/' in u:
        return c.R(u.replace('/kg/', '/mol/')) / (M / 1000)
    return c.R(u)


def molar_mass(elements):
    from pmutt import constants as c
    m = 0
    for k, n in elements.items():
        m = m + n * c.atomic_weight[k]
    return m


def _strip_K(u):
    assert u.endswith('/K')
    return u[:-2]


class StubMisc:
    """attached model whose contributions depend on the T and P it receives"""
    def __init__(self, ctx):
        self.c = {q: [ctx.real('misc.%s.c%d' % (q, i), -5, 5) for i in range(3)] for q in ('CpoR', 'HoRT', 'SoR')}
        for q in ('CpoR', 'HoRT', 'SoR', 'GoRT'):
            def mk(q):
                def getter(T=777.0, P=3.0):
                    return self.val(q, T, P)
                return getter
            setattr(self, 'get_' + q, mk(q))

    def val(self, q, T, P):
        if q == 'GoRT':
            return self.val('HoRT', T, P) - self.val('SoR', T, P)
        c = self.c[q]
        return c[0] + c[1] * T * 1e-3 + c[2] * P


def _first(v):
    import numpy as np
    if isinstance(v, np.ndarray):
        assert v.size == 1
        return v.ravel()[0]
    return v


def _empirical(ctx, kind, elements):
    kw = dict(name='sp', elements=elements, misc_models=[StubMisc(ctx)])
    if kind == 'Nasa':
        from pmutt.empirical.nasa import Nasa
        return Nasa(T_low=200., T_mid=1000., T_high=3500., a_low=np_array(ctx, [ctx.real('al%d' % i, -10, 10) for i in range(7)]),
                    a_high=np_array(ctx, [ctx.real('ah%d' % i, -10, 10) for i in range(7)]), **kw)
    if kind == 'Nasa9':
        from pmutt.empirical.nasa import Nasa9, SingleNasa9
        return Nasa9(nasas=[SingleNasa9(T_low=200., T_high=3500., a=np_array(ctx, [ctx.real('a%d' % i, -10, 10) for i in range(9)]))], **kw)
    from pmutt.empirical.shomate import Shomate
    return Shomate(T_low=200., T_high=3500., a=np_array(ctx, [ctx.real('a%d' % i, -10, 10) for i in range(8)]), **kw)


def h_empirical(ctx, kind, q, units, nT, S_elements):
    counts = {k: ctx.real('n_' + k, 0.5, 20) for k in ELEMENTS}
    sp = _empirical(ctx, kind, dict(counts))
    M = molar_mass(counts)
    P = ctx.real('P', 1e-3, 1e2)
    Ts = [ctx.real('T%d' % i, 200, 3500) for i in range(nT)]
    Targ = Ts[0] if nT == 1 else np_array(ctx, Ts)
    opts = dict(P=P)
    if q in ('S', 'G') and S_elements:
        opts['S_elements'] = True
        # entropy of the elements needs integer-keyed lookups: use the real table through the species' own helper
    for u in units:
        if q in ('Cp', 'S'):
            dim = getattr(sp, 'get_' + q)(T=Targ, units=u, **opts)
            nd = getattr(sp, 'get_%soR' % q)(T=Targ, **opts)
            fac = [R_expected(u, M) for _ in Ts]
        else:
            dim = getattr(sp, 'get_' + q)(T=Targ, units=_strip_K(u), **opts)
            nd = getattr(sp, 'get_%soRT' % q)(T=Targ, **opts)
            fac = [R_expected(u, M) * t for t in Ts]
        if nT == 1:
            ctx.eq('%s(%s) = %s x R%s' % (q, u, 'dimensionless', '' if q in ('Cp', 'S') else ' x T'), _first(dim), _first(nd) * fac[0])
        else:
            ctx.true('%s(%s) array: one value per temperature' % (q, u), len(dim) == nT)
            if len(dim) == nT:
                for i in range(nT):
                    ctx.eq('%s(%s)[%d] = dimensionless x R%s' % (q, u, i, '' if q in ('Cp', 'S') else ' x T'), dim[i], nd[i] * fac[i])
    # two units differ only by the conversion factor
    if len(units) >= 2 and nT == 1:
        u0, u1 = units[0], units[1]
        if q in ('Cp', 'S'):
            a = _first(getattr(sp, 'get_' + q)(T=Targ, units=u0, **opts))
            b = _first(getattr(sp, 'get_' + q)(T=Targ, units=u1, **opts))
        else:
            a = _first(getattr(sp, 'get_' + q)(T=Targ, units=_strip_K(u0), **opts))
            b = _first(getattr(sp, 'get_' + q)(T=Targ, units=_strip_K(u1), **opts))
        ctx.eq('%s in %s and %s differ by the R ratio' % (q, u0, u1), a * R_expected(u1, M), b * R_expected(u0, M))


def h_two_species(ctx, kind):
    """history: per-mass values of two species with the same element set but different counts,
    requested one after the other, each use their own molar mass"""
    T = ctx.real('T', 200, 3500)
    sps = []
    for tag in ('one', 'two'):
        counts = {k: ctx.real('n_%s_%s' % (tag, k), 0.5, 20) for k in ELEMENTS}
        if kind == 'StatMech':
            from pmutt.statmech import StatMech
            sp = StatMech(name=tag, trans_model=StubMode(ctx, tag + '.trans'), elements=dict(counts))
        else:
            kw = dict(name=tag, elements=dict(counts))
            from pmutt.empirical.nasa import Nasa
            sp = Nasa(T_low=200., T_mid=1000., T_high=3500., a_low=np_array(ctx, [ctx.real('%s.al%d' % (tag, i), -10, 10) for i in range(7)]),
                      a_high=np_array(ctx, [ctx.real('%s.ah%d' % (tag, i), -10, 10) for i in range(7)]), **kw)
        sps.append((sp, molar_mass(counts)))
    from pmutt import constants as c
    for rnd in (1, 2):
        for sp, M in sps:
            ctx.eq('Cp(J/g/K) of species %s (round %d) uses its own molar mass' % (sp.name, rnd), sp.get_Cp(T=T, units='J/g/K'),
                   sp.get_CpoR(T=T) * c.R('J/mol/K') / M)
            ctx.eq('H(kJ/kg) of species %s (round %d) uses its own molar mass' % (sp.name, rnd), sp.get_H(T=T, units='kJ/kg'),
                   sp.get_HoRT(T=T) * c.R('kJ/mol/K') * T / (M / 1000))


class StubMode:
    def __init__(self, ctx, name):
        self.c = {}
        for q in ('CvoR', 'CpoR', 'UoRT', 'HoRT', 'SoR', 'FoRT', 'GoRT'):
            self.c[q] = [ctx.real('%s.%s.c%d' % (name, q, i), -5, 5) for i in range(3)]

            def mk(q):
                def getter(T=777.0, P=3.0):
                    c = self.c[q]
                    return c[0] + c[1] * T * 1e-3 + c[2] * P
                return getter
            setattr(self, 'get_' + q, mk(q))


def h_statmech(ctx, q, units, verbose, use_refs):
    from pmutt.statmech import StatMech
    counts = {k: ctx.real('n_' + k, 0.5, 20) for k in ELEMENTS}
    M = molar_mass(counts)
    modes = [StubMode(ctx, n) for n in ('trans', 'vib', 'rot', 'elec', 'nucl')]
    ref = StubMode(ctx, 'refs')
    ref.descriptor = 'elements'
    for k in list(ref.c):
        f = getattr(ref, 'get_' + k)
        setattr(ref, 'get_' + k, (lambda f: (lambda T=777.0, P=3.0, descriptors=None: f(T=T, P=P)))(f))
    sp = StatMech(name='sp', trans_model=modes[0], vib_model=modes[1], rot_model=modes[2], elec_model=modes[3], nucl_model=modes[4],
                  references=ref, elements=dict(counts), misc_models=[StubMode(ctx, 'misc')])
    T = ctx.real('T', 50, 5000)
    P = ctx.real('P', 1e-4, 1e3)
    opts = dict(P=P, verbose=verbose, use_references=use_refs)
    for u in units:
        if q in ('Cv', 'Cp', 'S'):
            dim = getattr(sp, 'get_' + q)(T=T, units=u, **opts)
            nd = getattr(sp, 'get_%soR' % q)(T=T, **opts)
            fac = R_expected(u, M)
        else:
            dim = getattr(sp, 'get_' + q)(T=T, units=_strip_K(u), **opts)
            nd = getattr(sp, 'get_%soRT' % q)(T=T, **opts)
            fac = R_expected(u, M) * T
        if verbose:
            ctx.true('%s(%s) verbose: same number of entries' % (q, u), len(dim) == len(nd))
            if len(dim) == len(nd):
                for i in range(len(nd)):
                    ctx.eq('%s(%s) verbose[%d] = dimensionless x R' % (q, u, i), dim[i], nd[i] * fac)
        else:
            ctx.eq('%s(%s) = dimensionless x R%s' % (q, u, '' if q in ('Cv', 'Cp', 'S') else ' x T'), dim, nd * fac)


def h_statmech_E(ctx, units, zpe):
    """electronic energy with units"""
    from pmutt.statmech import StatMech, elec, vib
    counts = {k: ctx.real('n_' + k, 0.5, 20) for k in ELEMENTS}
    M = molar_mass(counts)
    sp = StatMech(name='sp', elec_model=elec.GroundStateElec(potentialenergy=ctx.real('E', -100, 100)),
                  vib_model=vib.HarmonicVib(vib_wavenumbers=[ctx.real('w', 10, 4500)]), elements=dict(counts))
    T = ctx.real('T', 50, 5000)
    for u in units:
        ctx.eq('E(%s) = EoRT x R x T' % u, sp.get_E(T=T, units=_strip_K(u), include_ZPE=zpe), sp.get_EoRT(T=T, include_ZPE=zpe) * R_expected(u, M) * T)


def _q(ctx, x):
    return Q(ctx, x) if isinstance(x, (int, float)) else x


def h_mode(ctx, kind, q, units):
    """dimensional wrappers inherited by the mode classes"""
    from pmutt.statmech import trans, vib, rot, elec
    T = ctx.real('T', 50, 5000)
    P = ctx.real('P', 1e-4, 1e3)
    if kind == 'FreeTrans':
        mode = trans.FreeTrans(n_degrees=3, molecular_weight=ctx.real('M', 1, 500))
    elif kind == 'HarmonicVib':
        mode = vib.HarmonicVib(vib_wavenumbers=[ctx.real('w', 10, 4500)])
    elif kind == 'RigidRotor':
        mode = rot.RigidRotor(symmetrynumber=2., rot_temperatures=[ctx.real('tr', 0.01, 100)], geometry='linear')
    else:
        mode = elec.GroundStateElec(potentialenergy=ctx.real('E', -100, 100), spin=0.5)
    from pmutt import _pass_expected_arguments, constants as c
    for u in units:
        if q in ('Cv', 'Cp', 'S'):
            nd = _pass_expected_arguments(getattr(mode, 'get_%soR' % q), T=T, P=P)
            dim = getattr(mode, 'get_' + q)(units=u, T=T, P=P)
            ctx.eq('%s.%s(%s) = dimensionless x R' % (kind, q, u), dim, _q(ctx, nd) * _q(ctx, c.R(u)), rel=1e-12)
        else:
            nd = _pass_expected_arguments(getattr(mode, 'get_%soRT' % q), T=T, P=P)
            dim = getattr(mode, 'get_' + q)(units=_strip_K(u), T=T, P=P)
            ctx.eq('%s.%s(%s) = dimensionless x R x T' % (kind, q, u), dim, _q(ctx, nd) * _q(ctx, c.R(u)) * T, rel=1e-12)


def h_reaction(ctx, kind, form, q, units, rev, zpe=None):
    from pmutt import constants as c
    if kind == 'Reaction':
        from pmutt.reaction import Reaction as cls
    elif kind == 'ChemkinReaction':
        from pmutt.reaction import ChemkinReaction as cls
    else:
        from pmutt.omkm.reaction import SurfaceReaction as cls
    R_ = [StubSpecies(ctx, n) for n in ('A', 'AB')]
    P_ = [StubSpecies(ctx, 'B')]
    TS = [StubSpecies(ctx, 'TS')]
    rxn = cls(reactants=R_, reactants_stoich=[ctx.real('nuA', 0.25, 4), ctx.real('nuAB', 0.25, 4)], products=P_,
              products_stoich=[ctx.real('nuB', 0.25, 4)], transition_state=TS, transition_state_stoich=[1.])
    T = ctx.real('T', 50, 5000)
    P = ctx.real('P', 1e-4, 1e3)
    pa = ctx.real('P_A', 1e-4, 1e3)
    opts = dict(P=P, A_kwargs={'P': pa})
    if zpe is not None:
        opts['include_ZPE'] = zpe
    ext = q in ('Cv', 'Cp', 'S')
    for u in units:
        uu = u if ext else _strip_K(u)
        fac = c.R(u) if ext else c.R(u) * T
        nd_name = '%soR' % q if ext else '%soRT' % q
        if form == 'state':
            for state in ('reactants', 'products', 'transition state'):
                dim = getattr(rxn, 'get_%s_state' % q)(state=state, units=uu, T=T, **opts)
                nd = getattr(rxn, 'get_%s_state' % nd_name)(state=state, T=T, **opts)
                ctx.eq('%s_state(%s, %s) = dimensionless x R%s' % (q, state, u, '' if ext else ' x T'), dim, nd * fac)
        elif form == 'delta':
            for act in (False, True):
                dim = getattr(rxn, 'get_delta_%s' % q)(units=uu, T=T, rev=rev, act=act, **opts)
                nd = getattr(rxn, 'get_delta_%s' % nd_name)(T=T, rev=rev, act=act, **opts)
                ctx.eq('delta_%s(%s, rev=%s, act=%s) = dimensionless x R%s' % (q, u, rev, act, '' if ext else ' x T'), dim, nd * fac)
        else:
            dim = getattr(rxn, 'get_%s_act' % q)(units=uu, T=T, rev=rev, **opts)
            nd = getattr(rxn, 'get_%s_act' % nd_name)(T=T, rev=rev, **opts)
            ctx.eq('%s_act(%s, rev=%s) = dimensionless x R%s' % (q, u, rev, '' if ext else ' x T'), dim, nd * fac)
            if q == 'E':
                # the Arrhenius form carries the change in molecularity
                for dm in (0, -1, None):
                    dim = rxn.get_E_act(units=uu, T=T, rev=rev, del_m=dm, **opts)
                    nd = rxn.get_EoRT_act(T=T, rev=rev, del_m=dm, **opts)
                    ctx.eq('E_act(%s, rev=%s, del_m=%s) = dimensionless x R x T' % (u, rev, dm), dim, nd * fac)


def groups(tier):
    th = tier == 'thorough'
    g = []
    salt = 0
    for kind in ('Nasa', 'Nasa9', 'Shomate'):
        for q in ('Cp', 'H', 'S', 'G'):
            for nT in (1, 2):
                for se in ((False, True) if q in ('S', 'G') and nT == 1 else (False,)):
                    salt += 1
                    us = pick_units(tier, salt)
                    if se:
                        continue    # S_elements needs integer element counts: separate group below
                    g.append(dict(name='%s/%s/%dT' % (kind, q, nT), harness=h_empirical,
                                  params=dict(kind=kind, q=q, units=us, nT=nT, S_elements=False)))
    for q in ('Cv', 'Cp', 'U', 'H', 'S', 'F', 'G'):
        for verbose in (False, True):
            for use_refs in (True, False):
                salt += 1
                g.append(dict(name='StatMech/%s/verbose=%s/use_references=%s' % (q, verbose, use_refs), harness=h_statmech,
                              params=dict(q=q, units=pick_units(tier, salt), verbose=verbose, use_refs=use_refs)))
    for kind in ('Nasa', 'StatMech'):
        g.append(dict(name='two-species-same-elements/%s' % kind, harness=h_two_species, params=dict(kind=kind)))
    for zpe in (False, True):
        salt += 1
        g.append(dict(name='StatMech/E/include_ZPE=%s' % zpe, harness=h_statmech_E, params=dict(units=pick_units(tier, salt), zpe=zpe)))
    molar = R_MOLAR + R_MOLEC
    for kind in ('FreeTrans', 'HarmonicVib', 'RigidRotor', 'GroundStateElec'):
        for q in ('Cv', 'Cp', 'U', 'H', 'S', 'F', 'G'):
            salt += 1
            us = molar if th else [u for i, u in enumerate(molar) if (i + salt) % 4 == 0]
            g.append(dict(name='mode/%s/%s' % (kind, q), harness=h_mode, params=dict(kind=kind, q=q, units=us)))
    for kind in ('Reaction', 'ChemkinReaction', 'SurfaceReaction'):
        for form in ('state', 'delta', 'act'):
            for q in ('Cv', 'Cp', 'U', 'H', 'S', 'F', 'G', 'E'):
                clamped = form == 'act' and kind != 'Reaction' and q in ('H', 'G')     # max(0, TS - IS, FS - IS): three paths
                for rev in ((False, True) if form != 'state' else (False,)):
                    salt += 1
                    if not th and kind != 'Reaction' and (salt % 3) and not clamped:
                        continue
                    us = molar if th else [u for i, u in enumerate(molar) if (i + salt) % 5 == 0]
                    if q == 'E':
                        for zpe in (False, True):
                            g.append(dict(name='%s/%s/E/rev=%s/include_ZPE=%s' % (kind, form, rev, zpe), harness=h_reaction,
                                          params=dict(kind=kind, form=form, q=q, units=us, rev=rev, zpe=zpe)))
                        continue
                    g.append(dict(name='%s/%s/%s/rev=%s' % (kind, form, q, rev), harness=h_reaction,
                                  params=dict(kind=kind, form=form, q=q, units=us, rev=rev)))
    return g
