"""C17  PiecewiseCovEffect stays the continuous piecewise-linear function under edits.

Inductive step: the state of the object is (intervals, slopes, _intercepts); every public
mutator ends in _set_intercepts(), so an arbitrary reachable state is what the constructor
builds from an arbitrary valid (intervals, slopes).  One real insert/pop from that state with
symbolic arguments covers histories of any length; short explicit histories are added on top
to catch state that survives across operations.
"""
from checks.common import *

META = dict(
    functions=['pmutt.mixture.cov.PiecewiseCovEffect.__init__/_set_intercepts/insert/pop/get_UoRT/get_HoRT/get_GoRT/get_FoRT/'
               'get_SoR/get_CvoR/get_CpoR/to_dict/from_dict'],
    bounds=dict(quick='k = 1..4 breakpoints (0 = b0 < b1 < ... <= 1 symbolic), slopes symbolic reals in [-100,100] (k = 2, 3 also as symbolic integers), coverage x in [0,1], '
                      'T in [50,5000]; one insert (below first interior / between / equal / above) or one pop(i); 2-step histories',
                thorough='k = 1..5; 3-step histories'),
    outside_claim=['more than 5 breakpoints', 'pop with negative indices other than -1', 'IEEE rounding'],
    stubs=[],
    assumptions=['pre-state = constructor output for arbitrary valid lists (representation invariant)'],
)

R_KCAL = None


def _R():
    from pmutt import constants as c
    return c.R('kcal/mol/K')


def ref_energy(bs, ss, x):
    """continuous piecewise-linear function, zero at 0, slope ss[j] on [bs[j], bs[j+1]); written
    independently of the code (accumulated segment areas, no intercepts)"""
    n = len(bs)
    m = 0
    for j in range(1, n):           # m = largest index with bs[m] <= x   (forks on symbolic x)
        if bs[j] <= x:
            m = j
        else:
            break
    e = 0
    for j in range(m):
        e = e + ss[j] * (bs[j + 1] - bs[j])
    return e + ss[m] * (x - bs[m])


def _state(ctx, k, int_slopes=False):
    bs = [0.0] + [ctx.real('b%d' % j, 0, 1) for j in range(1, k)]
    for j in range(1, k):
        ctx.assume(bs[j - 1] < bs[j])
    if int_slopes:
        # slopes given as Python integers (an integer-typed container): intercepts are still fractional
        ss = [ctx.int('s%d' % j, -100, 100) for j in range(k)]
    else:
        ss = [ctx.real('s%d' % j, -100, 100) for j in range(k)]
    return bs, ss


def _check_function(ctx, obj, bs, ss, tag, x=None, T=None, full=True):
    from pmutt.mixture.cov import PiecewiseCovEffect
    x = ctx.real('x', 0, 1) if x is None else x
    T = ctx.real('T', 50, 5000) if T is None else T
    RT = _R() * T
    want = ref_energy(bs, ss, x)
    ctx.eq(tag + 'U*RT = reference piecewise-linear energy', obj.get_UoRT(x=x, T=T) * RT, want)
    ctx.eq(tag + 'H*RT = reference', obj.get_HoRT(x=x, T=T) * RT, want)
    ctx.eq(tag + 'G*RT = reference', obj.get_GoRT(x=x, T=T) * RT, want)
    ctx.eq(tag + 'F*RT = reference', obj.get_FoRT(x=x, T=T) * RT, want)
    if full:
        ctx.eq(tag + 'energy independent of T', ctx.deriv(lambda t: obj.get_UoRT(x=x, T=t) * _R() * t, T), 0.0, info='deriv')
        ctx.eq(tag + 'S = 0', obj.get_SoR(), 0.0)
        ctx.eq(tag + 'Cv = 0', obj.get_CvoR(), 0.0)
        ctx.eq(tag + 'Cp = 0', obj.get_CpoR(), 0.0)
        d = obj.to_dict()
        copy = PiecewiseCovEffect.from_dict(dict(d))
        ctx.eq(tag + 'reload: U*RT = reference', copy.get_UoRT(x=x, T=T) * RT, want)
        ctx.eq(tag + 'reload(reload): G*RT = reference',
               PiecewiseCovEffect.from_dict(copy.to_dict()).get_GoRT(x=x, T=T) * RT, want)
        # the reloaded object and the dictionary are independent of the original: editing them leaves the original as it was
        n0 = (len(obj.intervals), len(obj.slopes))
        copy.insert(1.5, 7.0)
        d['intervals'].append(2.5)
        d['slopes'].append(9.0)
        ctx.true(tag + 'editing a reloaded copy / the dictionary leaves the original unchanged', (len(obj.intervals), len(obj.slopes)) == n0)
        ctx.eq(tag + 'original still evaluates to the reference after the copy was edited', obj.get_UoRT(x=x, T=T) * RT, want)


def _check_lists(ctx, obj, bs, ss, tag):
    ctx.true(tag + 'same number of breakpoints and slopes', len(obj.intervals) == len(bs) and len(obj.slopes) == len(ss))
    if len(obj.intervals) != len(bs) or len(obj.slopes) != len(ss):
        return
    for j in range(len(bs)):
        ctx.eq(tag + 'breakpoint[%d]' % j, obj.intervals[j], bs[j])
        ctx.eq(tag + 'slope[%d] stays paired' % j, obj.slopes[j], ss[j])
    for j in range(1, len(bs)):
        ctx.true(tag + 'breakpoints ascending [%d]' % j, obj.intervals[j - 1] <= obj.intervals[j])


def h_construct(ctx, k, int_slopes=False):
    from pmutt.mixture.cov import PiecewiseCovEffect
    bs, ss = _state(ctx, k, int_slopes)
    obj = PiecewiseCovEffect('a', 'b', list(bs), list(ss))
    _check_lists(ctx, obj, bs, ss, '')
    _check_function(ctx, obj, bs, ss, '')


def h_default_T(ctx, k):
    """getters called without T use 298.15 K consistently"""
    from pmutt.mixture.cov import PiecewiseCovEffect
    from pmutt import constants as c
    bs, ss = _state(ctx, k)
    obj = PiecewiseCovEffect('a', 'b', list(bs), list(ss))
    x = ctx.real('x', 0, 1)
    RT = _R() * c.T0('K')
    want = ref_energy(bs, ss, x)
    ctx.eq('U*R*T0 = reference (default T)', obj.get_UoRT(x=x) * RT, want)
    ctx.eq('H*R*T0 = reference (default T)', obj.get_HoRT(x=x) * RT, want)
    ctx.eq('G*R*T0 = reference (default T)', obj.get_GoRT(x=x) * RT, want)
    ctx.eq('F*R*T0 = reference (default T)', obj.get_FoRT(x=x) * RT, want)
    ctx.eq('zero coverage gives zero (default x)', obj.get_UoRT(T=ctx.real('T', 50, 5000)), 0.0)


def _apply_insert(ctx, obj, bs, ss, region, tag):
    """perform one real insert with symbolic arguments restricted to `region`; returns the
    expected lists (independent sorted insertion; new pair goes after equal breakpoints)"""
    ni = ctx.real(tag + 'ni', 0, 1)
    ns = ctx.real(tag + 'ns', -100, 100)
    k = len(bs)
    if region == 'above':
        ctx.assume(ni > bs[-1])
        pos = k
    elif region == 'equal':
        pos = None
        j = ctx.choose(tag + 'eq', range(k))
        ctx.assume(ni == bs[j])
        pos = j + 1
    else:   # strictly between two existing breakpoints (or between 0 and the first interior one)
        if k == 1:
            raise_infeasible(ctx)
        j = ctx.choose(tag + 'gap', range(k - 1))
        ctx.assume(bs[j] < ni)
        ctx.assume(ni < bs[j + 1])
        pos = j + 1
    obj.insert(ni, ns)
    nb = list(bs[:pos]) + [ni] + list(bs[pos:])
    nsl = list(ss[:pos]) + [ns] + list(ss[pos:])
    return nb, nsl


def raise_infeasible(ctx):
    ctx.assume(False)


def _apply_pop(ctx, obj, bs, ss, i):
    obj.pop(i)
    idx = i if i >= 0 else len(bs) + i
    return list(bs[:idx]) + list(bs[idx + 1:]), list(ss[:idx]) + list(ss[idx + 1:])


def h_insert(ctx, k, region):
    from pmutt.mixture.cov import PiecewiseCovEffect
    bs, ss = _state(ctx, k)
    obj = PiecewiseCovEffect('a', 'b', list(bs), list(ss))
    nb, nsl = _apply_insert(ctx, obj, bs, ss, region, '')
    _check_lists(ctx, obj, nb, nsl, '')
    _check_function(ctx, obj, nb, nsl, '', full=False)
    d = obj.to_dict()
    copy = PiecewiseCovEffect.from_dict(dict(d))
    x = ctx.real('x2', 0, 1)
    T = ctx.real('T2', 50, 5000)
    ctx.eq('reload after insert: same function', copy.get_UoRT(x=x, T=T), obj.get_UoRT(x=x, T=T))


def h_pop(ctx, k, i):
    from pmutt.mixture.cov import PiecewiseCovEffect
    bs, ss = _state(ctx, k)
    obj = PiecewiseCovEffect('a', 'b', list(bs), list(ss))
    nb, nsl = _apply_pop(ctx, obj, bs, ss, i)
    _check_lists(ctx, obj, nb, nsl, '')
    _check_function(ctx, obj, nb, nsl, '', full=False)
    copy = PiecewiseCovEffect.from_dict(obj.to_dict())
    x = ctx.real('x2', 0, 1)
    T = ctx.real('T2', 50, 5000)
    ctx.eq('reload after pop: same function', copy.get_UoRT(x=x, T=T), obj.get_UoRT(x=x, T=T))


def h_pop0(ctx, k):
    from pmutt.mixture.cov import PiecewiseCovEffect
    bs, ss = _state(ctx, k)
    obj = PiecewiseCovEffect('a', 'b', list(bs), list(ss))
    try:
        obj.pop(0)
    except ValueError:
        pass
    else:
        ctx.fail('pop(0) is refused')
    _check_lists(ctx, obj, bs, ss, 'after refused pop(0): ')
    _check_function(ctx, obj, bs, ss, 'after refused pop(0): ', full=False)


def h_history(ctx, k, ops):
    """explicit short history; ops = [('insert', region) | ('pop', i)]"""
    from pmutt.mixture.cov import PiecewiseCovEffect
    bs, ss = _state(ctx, k)
    obj = PiecewiseCovEffect('a', 'b', list(bs), list(ss))
    for n, op in enumerate(ops):
        if op[0] == 'insert':
            bs, ss = _apply_insert(ctx, obj, bs, ss, op[1], 'op%d_' % n)
        else:
            bs, ss = _apply_pop(ctx, obj, bs, ss, op[1])
    _check_lists(ctx, obj, bs, ss, '')
    _check_function(ctx, obj, bs, ss, '', full=False)


def groups(tier):
    th = tier == 'thorough'
    K = (1, 2, 3, 4, 5) if th else (1, 2, 3, 4)
    g = []
    for k in K:
        g.append(dict(name='construct/k%d' % k, harness=h_construct, params=dict(k=k)))
        for region in ('between', 'equal', 'above'):
            if region == 'between' and k == 1:
                continue
            g.append(dict(name='insert/k%d/%s' % (k, region), harness=h_insert, params=dict(k=k, region=region)))
        for i in list(range(1, k)) + ([-1] if k > 1 else []):
            g.append(dict(name='pop/k%d/i%d' % (k, i), harness=h_pop, params=dict(k=k, i=i)))
        g.append(dict(name='pop0/k%d' % k, harness=h_pop0, params=dict(k=k)))
    for k in (2, 3):
        g.append(dict(name='construct/k%d/integer-slopes' % k, harness=h_construct, params=dict(k=k, int_slopes=True)))
    g.append(dict(name='default-T/k2', harness=h_default_T, params=dict(k=2)))
    g.append(dict(name='default-T/k3', harness=h_default_T, params=dict(k=3)))
    hist = [
        (2, [('insert', 'between'), ('pop', 1)]),
        (2, [('insert', 'between'), ('pop', 2)]),
        (3, [('pop', 2), ('insert', 'between')]),
        (3, [('pop', 1), ('pop', 1)]),
        (2, [('insert', 'between'), ('insert', 'between')]),
        (2, [('insert', 'equal'), ('pop', 1)]),
        (3, [('pop', 2), ('pop', 1)]),
        (2, [('pop', 1), ('insert', 'equal')]),
    ]
    if th:
        hist += [
            (3, [('insert', 'between'), ('pop', 3), ('insert', 'between')]),
            (2, [('insert', 'between'), ('insert', 'equal'), ('pop', 2)]),
            (4, [('pop', 3), ('pop', 2), ('insert', 'between')]),
            (3, [('pop', -1), ('insert', 'between'), ('pop', 1)]),
        ]
    for k, ops in hist:
        nm = 'history/k%d/' % k + '+'.join('%s(%s)' % op for op in ops)
        g.append(dict(name=nm, harness=h_history, params=dict(k=k, ops=ops), max_paths=1500))
    return g
