"""C06  Chemkin mechanism files transcribe the model faithfully (partial: writers on a skeleton with symbolic numbers; reader on symbolic equations)."""
from checks.common import *
import os
from checks.stubs import StubSpecies, CatSite, ref_val

USES_STRINGS = True

META = dict(
    functions=['pmutt.io.chemkin.read_reactions/_remove_rate_parameters (regular expressions interpreted on symbolic characters)',
               'pmutt.io.chemkin.write_gas/write_surf/write_EA/write_T_flow/write_tube_mole/_write_reaction_lines/_write_column_line/'
               '_get_max_reaction_len/_get_specie_str', 'pmutt.reaction.ChemkinReaction._is_gas_phase/_get_n_surf/get_A/get_*_act (as called by the writers)',
               'pmutt.reaction.Reactions.get_species', 'Reaction.to_string'],
    bounds=dict(quick='a concrete mechanism skeleton (3 gas species, 3 adsorbates + vacant site + bulk on one catalyst site; gas reaction with TS, '
                      'adsorption without TS, surface reaction with TS, desorption without TS; integer stoichiometry 1-2) and a two-site variant; every '
                      'number symbolic: all species model values (affine in T, P), site densities, occupancies as given, sticking coefficients, beta, T, '
                      'P, Q, abyv, mole fractions, 1-3 run conditions; activation methods E/H/G in dimensional and dimensionless form'
                      '. Reader: one reaction line between comment / REACTIONS / STICK / END lines; 1-2 species per side with names of 1-4 symbolic '
                      'characters (letter, then letters / digits / parentheses), optional coefficients of 1-2 symbolic digits, arrows = <=> =>, with and '
                      'without blanks, four concrete rate-column texts (incl. negative Ea and E-07 exponents, and none)',
                thorough='adds the remaining activation-method x option combinations; every arrow x blank combination and two more equation shapes'),
    outside_claim=['composition writer -> reader on one text (the writers run on concrete names with symbolic numbers, the reader on symbolic names with '
                   'concrete rate columns; both share the line format  <equation><blanks>A beta Ea)', 'printed precision (a number is identified by the (format, value) token the writer produced)',
                   'mechanisms with symbolic structure (phase of a species, presence of a TS): the skeleton is a configuration'],
    stubs=['species = StubSpecies (getter protocol)', '_get_file_timestamp: real clock text (first comment line, not examined)'],
    assumptions=[],
)


_NUM = None


def _parse_literals(text):
    import re
    global _NUM
    if _NUM is None:
        _NUM = re.compile(r'(?<![\w.(/])[-+]?(?:\d+\.\d*|\.\d+|\d+)(?:[eE][-+]?\d+)(?![\w.])|(?<![\w.(/])[-+]?\d+\.\d+(?![\w.])')
    return [('lit', float(m.group(0))) for m in _NUM.finditer(text)]


def _tok_values(line):
    """numbers printed on a line, in order, as value terms (formatted-number tokens and literal decimals)"""
    from symx.symstr import Tok, SymStr
    from symx.proxy import Sym
    if isinstance(line, str):
        return _parse_literals(line)
    out = []
    cells = line.cells
    lit = []
    for i, c in enumerate(cells):
        if isinstance(c, str):
            lit.append(c)
            continue
        if isinstance(c, Sym):
            continue            # sign cell: handled with its token
        if lit:
            out.extend(_parse_literals(''.join(lit)))
            lit = []
        if isinstance(c, Tok):
            v = c.val
            if i > 0 and isinstance(cells[i - 1], Sym):
                v = -v if bool(cells[i - 1] == 45) else v
            out.append((c.spec, v))
    if lit:
        out.extend(_parse_literals(''.join(lit)))
    return out


def num_eq(ctx, label, printed, want, rel=None):
    """printed number = model value: exact term equality symbolically; to the printed precision in replay"""
    if ctx.is_sym():
        if rel:
            ctx.eq(label, printed, want, rel=rel)
        else:
            ctx.eq(label, printed, want)
    else:
        ctx.true(label, abs(float(printed) - float(want)) <= 6e-3 * abs(float(want)) + 6e-4)


def _text(line):
    """the literal characters of a line with every number replaced by '#'"""
    from symx.symstr import Tok, SymStr
    from symx.proxy import Sym
    if isinstance(line, str):
        return line
    return ''.join(ch if isinstance(ch, str) else ('' if isinstance(ch, Sym) else '#') for ch in line.cells)


def _lines(ctx, out):
    if isinstance(out, str):
        return out.split('\n')
    return out.split('\n')


def _mech(ctx, two_sites=False):
    from pmutt.reaction import ChemkinReaction, Reactions
    sig = ctx.real('site_density', 1e-11, 1e-8)
    site = CatSite('PT(S)', sig, 'PT(B)')
    site.density = ctx.real('bulk_density', 1, 30)
    site2 = site
    if two_sites:
        site2 = CatSite('CU(S)', ctx.real('site_density2', 1e-11, 1e-8), 'CU(B)')
        site2.density = ctx.real('bulk_density2', 1, 30)

    def sp(name, phase, elements, cat_site=None, n_sites=None):
        return StubSpecies(ctx, name, phase=phase, cat_site=cat_site, elements=elements, n_sites=n_sites,
                           quantities=['q', 'HoRT', 'SoR', 'GoRT', 'EoRT'], consistent=True)
    S = dict(A2=sp('A2', 'G', {'A': 2}), B=sp('B', 'G', {'B': 1}), AB=sp('AB', 'G', {'A': 1, 'B': 1}),
             A_S=sp('A(S)', 'S', {'A': 1, 'Pt': 1}, site, 1), B_S=sp('B(S)', 'S', {'B': 1, 'Pt': 1}, site2, 1),
             AB_S=sp('AB(S)', 'S', {'A': 1, 'B': 1, 'Pt': 1}, site, 2), PT_S=sp('PT(S)', 'S', {'Pt': 1}, site, 1),
             PT_B=sp('PT(B)', 'S', {'Pt': 1}, site, 1), TS1=sp('TS1', 'S', {'A': 1, 'B': 1, 'Pt': 2}, site, 2),
             TSg=sp('TSg', 'G', {'A': 2, 'B': 2}))
    if two_sites:
        S['CU_S'] = sp('CU(S)', 'S', {'Cu': 1}, site2, 1)
        S['CU_B'] = sp('CU(B)', 'S', {'Cu': 1}, site2, 1)
    stick = ctx.real('sticking', 0, 1)
    beta = [ctx.real('beta%d' % i, 0, 2) for i in range(4)]
    vac_b = S['CU_S'] if two_sites else S['PT_S']
    rx = dict(
        ads=ChemkinReaction(reactants=[S['A2'], S['PT_S']], reactants_stoich=[1., 2.], products=[S['A_S']], products_stoich=[2.],
                            is_adsorption=True, sticking_coeff=stick, beta=beta[0]),
        surf=ChemkinReaction(reactants=[S['A_S'], S['B_S']], reactants_stoich=[1., 1.], products=[S['AB_S'], vac_b], products_stoich=[1., 1.],
                             transition_state=[S['TS1']], transition_state_stoich=[1.], beta=beta[1]),
        des=ChemkinReaction(reactants=[S['AB_S']], reactants_stoich=[1.], products=[S['AB'], S['PT_S']], products_stoich=[1., 2.], beta=beta[2]),
        des2=ChemkinReaction(reactants=[S['A_S']], reactants_stoich=[2.], products=[S['A2'], S['PT_S']], products_stoich=[1., 2.], beta=beta[2]),
        gas=ChemkinReaction(reactants=[S['A2'], S['B']], reactants_stoich=[1., 2.], products=[S['AB']], products_stoich=[2.],
                            transition_state=[S['TSg']], transition_state_stoich=[1.], beta=beta[3]),
    )
    return S, rx, dict(site=site, site2=site2, sig=sig, stick=stick, beta=beta)


def _sum(sps, nus, q, T, P=7.0):
    t = 0
    for s, n in zip(sps, nus):
        t = t + n * ref_val(s, q, T, P)
    return t


def _want_A(ctx, rxn, T, info, op):
    """kb/h (per unit T) x q-ratio with a TS, over site_density^(n_surf-1)"""
    from pmutt import constants as c
    pre = c.kb('J/K') / c.h('J s')
    if rxn.transition_state is not None:
        qt = 1.0
        for s, n in zip(rxn.transition_state, rxn.transition_state_stoich):
            qt = qt * ref_val(s, 'q', T, 7.0)**int(n)
        qi = 1.0
        for s, n in zip(rxn.reactants, rxn.reactants_stoich):
            qi = qi * ref_val(s, 'q', T, 7.0)**int(n)
        pre = pre * qt / qi
    dens = []
    for s, n in zip(rxn.reactants, rxn.reactants_stoich):
        if s.phase == 'S' and s.cat_site is not None and s.cat_site.bulk_specie != s.name:
            dens += [s.cat_site.site_density] * int(n)
    if not dens:
        return pre
    if op == 'min':
        eff = dens[0]
        for d in dens[1:]:
            eff = d if bool(d < eff) else eff
    else:
        eff = sum(dens[1:], dens[0])
    return pre / eff**(len(dens) - 1)


def _want_Ea(ctx, rxn, method, T, units, P=7.0):
    from pmutt import constants as c
    q = {'E': 'HoRT', 'H': 'HoRT', 'G': 'GoRT'}[method[4]]
    r = _sum(rxn.reactants, rxn.reactants_stoich, q, T, P)
    p = _sum(rxn.products, rxn.products_stoich, q, T, P)
    t = _sum(rxn.transition_state, rxn.transition_state_stoich, q, T, P) if rxn.transition_state is not None else None
    if method[4] == 'E':
        val = (t - r)                 # unclamped, del_m = 1
    else:
        cands = [0.0, p - r] + ([t - r] if t is not None else [])
        val = cands[0]
        for x in cands[1:]:
            val = x if bool(x > val) else val
    if 'oRT' in method:
        return val
    return val * c.R(units + '/K') * T


def h_gas(ctx, two_sites):
    from pmutt.io.chemkin import write_gas
    S, rx, info = _mech(ctx, two_sites)
    T = ctx.real('T', 300, 2000)
    species = list(S.values())
    out = write_gas(nasa_species=species, reactions=list(rx.values()), T=T)
    lines = _lines(ctx, out)
    texts = [_text(l) for l in lines]
    i0, i1 = texts.index('ELEMENTS'), texts.index('SPECIES')
    e_end = texts.index('END', i0)
    s_end = texts.index('END', i1)
    els = texts[i0 + 1:e_end]
    want_els = sorted({e for s in species for e in s.elements})
    ctx.true('every element exactly once', sorted(els) == want_els)
    sp_lines = texts[i1 + 1:s_end]
    ctx.true('exactly the gas species, each once, in order', sp_lines == [s.name for s in species if s.phase == 'G'])
    r0 = texts.index('REACTIONS')
    r_end = texts.index('END', r0)
    rl = lines[r0 + 1:r_end]
    ctx.true('only the all-gas reaction is in gas.inp', len(rl) == 1 and _text(rl[0]).startswith('A2+2B=2AB'))
    if len(rl) == 1:
        toks = _tok_values(rl[0])
        ctx.true('three numbers on the reaction line', len(toks) == 3)
        if len(toks) == 3:
            num_eq(ctx, 'A = kb/h x q-ratio', toks[0][1], _want_A(ctx, rx['gas'], T, info, None), rel=1e-12)
            num_eq(ctx, 'beta', toks[1][1], info['beta'][3])
            num_eq(ctx, 'Ea = E_act in kcal/mol', toks[2][1], _want_Ea(ctx, rx['gas'], 'get_E_act', T, 'kcal/mol'))


def h_surf(ctx, two_sites, act, ads, op):
    from pmutt.io.chemkin import write_surf
    from pmutt.reaction import Reactions
    S, rx, info = _mech(ctx, two_sites)
    T = ctx.real('T', 300, 2000)
    rxs = Reactions(reactions=list(rx.values()))
    out = write_surf(reactions=rxs, T=T, act_method_name=act, ads_act_method=ads, sden_operation=op, act_unit='kcal/mol')
    lines = _lines(ctx, out)
    texts = [_text(l) for l in lines]
    site_lines = [i for i, t in enumerate(texts) if t.startswith('SITE/')]
    ctx.true('every catalyst site exactly once', sorted(t.split('/')[1] for t in texts if t.startswith('SITE/')) == sorted({'PT(S)'} | ({'CU(S)'} if two_sites else set())))
    for i in site_lines:
        name = texts[i].split('/')[1]
        st = info['site'] if name == 'PT(S)' else info['site2']
        tv = _tok_values(lines[i])
        ctx.true('site %s: one site density printed' % name, len(tv) == 1)
        if tv:
            num_eq(ctx, 'site %s: density' % name, tv[0][1], st.site_density)
    ads_lines = [t.strip() for t in texts if t.startswith('  ') and t.strip().endswith('/') and not t.startswith('  !')]
    want_ads = sorted('%s/%d/' % (s.name, s.n_sites) for s in S.values() if s.phase == 'S' and s.cat_site.bulk_specie != s.name and not s.name.startswith('TS'))
    ctx.true('every adsorbate exactly once with its occupancy', sorted(ads_lines) == want_ads)
    bulk = [t for t in texts if t.startswith('BULK ')]
    ctx.true('every bulk species exactly once', sorted(b.split('/')[0] for b in bulk) == sorted(['BULK PT(B)'] + (['BULK CU(B)'] if two_sites else [])))
    for i, t in enumerate(texts):
        if t.startswith('BULK '):
            st = info['site'] if 'PT(B)' in t else info['site2']
            tv = _tok_values(lines[i])
            if tv:
                num_eq(ctx, '%s density' % t.split('/')[0], tv[0][1], st.density)
    r0 = [i for i, t in enumerate(texts) if t.startswith('REACTIONS')][0]
    r_end = texts.index('END', r0)
    rl = [(lines[i], texts[i]) for i in range(r0 + 1, r_end)]
    eqs = [t.split(' ')[0] for _, t in rl if t != 'STICK']
    ctx.true('exactly the four surface reactions, each once, in order', eqs == ['A2+2PT(S)=2A(S)', 'A(S)+B(S)=AB(S)+%s' % ('CU(S)' if two_sites else 'PT(S)'), 'AB(S)=AB+2PT(S)', '2A(S)=A2+2PT(S)'])
    ctx.true('STICK follows the adsorption reaction only', [t for _, t in rl].count('STICK') == 1 and rl[1][1] == 'STICK')
    units = 'kcal/mol'
    for (ln, t), key in zip([x for x in rl if x[1] != 'STICK'], ['ads', 'surf', 'des', 'des2']):
        r = rx[key]
        toks = _tok_values(ln)
        ctx.true('%s: three numbers' % key, len(toks) == 3)
        if len(toks) != 3:
            continue
        if key == 'ads':
            num_eq(ctx, 'ads: sticking coefficient', toks[0][1], info['stick'])
            num_eq(ctx, 'ads: Ea by the adsorption method', toks[2][1], _want_Ea(ctx, r, ads, T, units))
        else:
            num_eq(ctx, '%s: A = kb/h x q-ratio / site_density^(n-1)' % key, toks[0][1],
                   _want_A(ctx, r, T, info, op) if act[4] != 'G' else _want_A_noS(ctx, r, info, op), rel=1e-12)
            num_eq(ctx, '%s: Ea by the requested method' % key, toks[2][1], _want_Ea(ctx, r, act, T, units))
        num_eq(ctx, '%s: beta' % key, toks[1][1], r.beta)


def _want_A_noS(ctx, rxn, info, op):
    """Gibbs-energy methods carry the entropy in Ea: A is kb/h over the site-density factor"""
    from pmutt import constants as c
    pre = c.kb('J/K') / c.h('J s')
    dens = []
    for s, n in zip(rxn.reactants, rxn.reactants_stoich):
        if s.phase == 'S' and s.cat_site is not None and s.cat_site.bulk_specie != s.name:
            dens += [s.cat_site.site_density] * int(n)
    if not dens:
        return pre
    if op == 'min':
        eff = dens[0]
        for d in dens[1:]:
            eff = d if bool(d < eff) else eff
    else:
        eff = sum(dens[1:], dens[0])
    return pre / eff**(len(dens) - 1)


def h_EA(ctx, ncond, gas):
    from pmutt.io.chemkin import write_EA
    S, rx, info = _mech(ctx, False)
    # every run condition carries its own temperature and pressure
    conds = [dict(T=ctx.real('T%d' % k, 300, 2000), P=ctx.real('P%d' % k, 0.1, 100)) for k in range(ncond)]
    out = write_EA(reactions=list(rx.values()), conditions=conds, write_gas_phase=gas, act_method_name='get_GoRT_act', ads_act_method='get_HoRT_act')
    lines = _lines(ctx, out)
    texts = [_text(l) for l in lines]
    ncount = [t for t in texts if t.endswith('!Number of reactions')]
    body = [(lines[i], t) for i, t in enumerate(texts) if not t.startswith('!') and t not in ('EOF',) and not t.endswith('!Number of reactions')]
    ctx.true('declared number of reactions = reaction lines that follow', len(ncount) == 1 and int(ncount[0].split()[0]) == len(body))
    keys = ['gas'] if gas else ['ads', 'surf', 'des', 'des2']
    ctx.true('exactly the %s reactions' % ('gas' if gas else 'surface'), len(body) == len(keys))
    if len(body) != len(keys):
        return
    for (ln, t), key in zip(body, keys):
        toks = _tok_values(ln)
        ctx.true('%s: one value per run condition' % key, len(toks) == ncond)
        for k, tk in enumerate(toks[:ncond]):
            m = 'get_HoRT_act' if key == 'ads' else 'get_GoRT_act'
            num_eq(ctx, '%s: EA/RT at the temperature and pressure of condition %d' % (key, k), tk[1],
                   _want_Ea(ctx, rx[key], m, conds[k]['T'], None, P=conds[k]['P']))
    col = [t for t in texts if t.startswith('!') and t.strip().endswith(str(ncond)) and set(t[1:].split()) <= set(map(str, range(1, ncond + 1)))]
    ctx.true('column header numbers the run conditions', len(col) == 1)


def h_T_flow(ctx, n):
    from pmutt.io.chemkin import write_T_flow
    T = [ctx.real('T%d' % i, 300, 2000) for i in range(n)]
    P = [ctx.real('P%d' % i, 0.1, 100) for i in range(n)]
    Q = [ctx.real('Q%d' % i, 0.1, 100) for i in range(n)]
    ab = [ctx.real('abyv%d' % i, 1, 1e4) for i in range(n)]
    out = write_T_flow(T=T, P=P, Q=Q, abyv=ab)
    lines = _lines(ctx, out)
    body = [l for l in lines if not _text(l).startswith('!') and _text(l) != 'EOF']
    ctx.true('one line per run condition', len(body) == n)
    for i, ln in enumerate(body[:n]):
        toks = _tok_values(ln)
        ctx.true('run %d: four numbers and the run index' % (i + 1), len(toks) == 4 and _text(ln).rstrip().endswith('!%d' % (i + 1)))
        if len(toks) == 4:
            for nm, tk, want in zip(('T', 'P', 'Q', 'abyv'), toks, (T[i], P[i], Q[i], ab[i])):
                num_eq(ctx, 'run %d: %s' % (i + 1, nm), tk[1], want)


def h_tube_mole(ctx, ncond):
    from pmutt.io.chemkin import write_tube_mole
    S, rx, info = _mech(ctx, False)
    species = list(S.values())
    conds = []
    for k in range(ncond):
        d = {'A2': ctx.real('x%d_A2' % k, 0, 1), 'B': ctx.real('x%d_B' % k, 0, 1)}
        if k == 0:
            d['PT(S)'] = ctx.real('x0_PT', 0, 1)
        if k == ncond - 1:
            d['AB'] = 0.0
        conds.append(d)
    out = write_tube_mole(mole_frac_conditions=conds, nasa_species=species)
    lines = _lines(ctx, out)
    texts = [_text(l) for l in lines]
    decl = [t for t in texts if t.endswith('Number of nonzero species')]
    body = [(lines[i], t) for i, t in enumerate(texts) if t.startswith("'")]
    ctx.true('declared species count = species lines that follow', len(decl) == 1 and int(decl[0].split()[0]) == len(body))
    names = [t.split("'")[1] for _, t in body]
    want = ["A2/GAS/", "B/GAS/", "AB/GAS/", "PT(S)/PT(S)/"]
    ctx.true('every listed species exactly once with its phase', sorted(names) == sorted(want))
    for (ln, t) in body:
        nm = t.split("'")[1].split('/')[0]
        toks = _tok_values(ln)
        ctx.true('%s: one mole fraction per run' % nm, len(toks) == ncond)
        for k in range(min(ncond, len(toks))):
            num_eq(ctx, '%s: mole fraction in run %d (0 when not given)' % (nm, k), toks[k][1], conds[k].get(nm, 0.0))


# ------------------------------------------------------------------------------------ reader
NAME0 = [(65, 90)]                               # first character of a species name: a letter
NAMEX = [(65, 90), (48, 57), (40, 41)]           # later characters: letters, digits, parentheses
ARROWS = ['=', '<=>', '=>']


def _species_cells(ctx, tag, length, ncoef):
    """(cells of the printed term, cells of the name, coefficient value)"""
    name = [ctx.char('%s.n0' % tag, NAME0)] + [ctx.char('%s.n%d' % (tag, i), NAMEX) for i in range(1, length)]
    digits = []
    for k in range(ncoef):
        digits.append(ctx.char('%s.k%d' % (tag, k), [(49, 57)] if k == 0 else [(48, 57)]))
    coef = 1 if not digits else None
    if digits:
        coef = 0
        for d in digits:
            coef = coef * 10 + (ctx.code(d) - 48)
    return digits + name, name, coef


def h_reader(ctx, shape, arrow, spaced, params):
    """read_reactions on a reaction section whose species names and coefficients are symbolic characters:
    shape = ((len, ncoef), ...) for the reactants, same for the products; params = the text of the rate-parameter columns"""
    from pmutt.io.chemkin import read_reactions
    lhs, rhs = shape
    plus = [' ', '+', ' '] if spaced else ['+']
    eq_cells, want = [], dict(R=[], P=[])
    for side, key in ((lhs, 'R'), (rhs, 'P')):
        for i, (ln, nc) in enumerate(side):
            term, name, coef = _species_cells(ctx, '%s%d' % (key, i), ln, nc)
            if i:
                eq_cells += plus
            eq_cells += term
            want[key].append((name, coef))
        if key == 'R':
            eq_cells += ([' '] + list(arrow) + [' ']) if spaced else list(arrow)
    # region split: the reader tells an arrow from the exponent of a number by the two characters in front of it
    # (look-behind [0-9][eE]); an equation whose left-hand side ends in <digit>E right before the arrow is its own region
    region = ''
    if not spaced:
        # position of the arrow in eq_cells
        n_l = 0
        for i, (ln, nc) in enumerate(lhs):
            n_l += ln + nc + (len(plus) if i else 0)
        idx = n_l
        if idx >= 2:
            c1, c2 = eq_cells[idx - 1], eq_cells[idx - 2]
            is_E = (c1 == 'E') if isinstance(c1, str) else bool(ctx.code(c1) == 69)
            if is_E:
                is_d = c2.isdigit() if isinstance(c2, str) else bool((ctx.code(c2) >= 48) & (ctx.code(c2) <= 57))
                if is_d:
                    region = ' [left-hand side ends in <digit>E directly before the arrow]'
    head = ['!Surface-phase reactions: A + B = C, rate = k', 'REACTIONS  MWON   KCAL/MOL']
    tail = ['STICK', 'END']
    cells = []
    for h in head:
        cells += list(h) + ['\n']
    cells += eq_cells + list(params) + ['\n']
    for t in tail:
        cells += list(t) + ['\n']
    text = ctx.string(cells)
    try:
        if ctx.is_sym():
            from symx import symstr
            symstr.VFS['mem://c06.inp'] = text
            out = read_reactions('mem://c06.inp')
        else:
            import tempfile
            fd, path = tempfile.mkstemp(suffix='.inp')
            os.close(fd)
            try:
                with open(path, 'w') as f:
                    f.write(text)
                out = read_reactions(path)
            finally:
                os.unlink(path)
    except Exception as e:
        ctx.fail('read_reactions raised %s%s' % (type(e).__name__, region))
        return
    rxns, reactants, r_st, products, p_st = out
    ctx.true('exactly the one reaction line is read (comments, header, STICK, END skipped)' + region, len(rxns) == 1 and len(reactants) == 1 and len(products) == 1)
    if not (len(rxns) == 1 and len(reactants) == 1 and len(products) == 1):
        return
    ctx.true('reaction text is the equation without the rate parameters (blanks aside)',
             rxns[0].replace(' ', '') == ctx.string([c_ for c_ in eq_cells if c_ != ' ']))
    for key, names, st in (('R', reactants[0], r_st[0]), ('P', products[0], p_st[0])):
        side = 'reactants' if key == 'R' else 'products'
        ctx.true('%s: as many species as written (nothing else is taken for a species)' % side, len(names) == len(want[key]) and len(st) == len(want[key]))
        if len(names) == len(want[key]) and len(st) == len(want[key]):
            for i, (name, coef) in enumerate(want[key]):
                ctx.true('%s[%d]: name read back unchanged' % (side, i), names[i] == ctx.string(name))
                ctx.true('%s[%d]: stoichiometric coefficient read back' % (side, i), st[i] == coef)


def _reader_groups(tier):
    th = tier == 'thorough'
    g = []
    PARAMS = ['                  3.000E-01   1.000E+00   0.000E+00', '   8.335E+18   1.000E+00  -1.192E+01', ' 5.3E-07 0.5 2.1E-01', '']
    shapes = [(((2, 0),), ((3, 1),)), (((2, 0), (4, 1)), ((3, 1),)), (((1, 1),), ((2, 0), (3, 1))), (((3, 2),), ((3, 0),))]
    if th:
        shapes += [(((2, 1), (2, 1)), ((2, 1), (2, 1))), (((4, 1),), ((4, 1), (1, 0)))]
    combos = [(a, sp) for a in ARROWS for sp in (False, True)]
    for si, shape in enumerate(shapes):
        for pi, params in enumerate(PARAMS):
            base = si * len(PARAMS) + pi
            pick = combos if th else [combos[base % 6], combos[(base + 3) % 6]]
            for arrow, spaced in pick:
                if params == '' and spaced:
                    continue
                nm = '+'.join('%dc%d' % (c, l) for l, c in shape[0]) + '_' + '+'.join('%dc%d' % (c, l) for l, c in shape[1])
                an = {'=': 'eq', '<=>': 'rev', '=>': 'irr'}[arrow]
                g.append(dict(name='reader/%s/arrow-%s/spaced=%s/params%d' % (nm, an, spaced, pi), harness=h_reader,
                              params=dict(shape=shape, arrow=arrow, spaced=spaced, params=params), no_validate=True, max_paths=3000))
    return g


def groups(tier):
    th = tier == 'thorough'
    g = []
    for ts in (False, True):
        g.append(dict(name='gas.inp/two_sites=%s' % ts, harness=h_gas, params=dict(two_sites=ts), no_validate=True))
    combos = [('get_E_act', 'get_H_act', 'min'), ('get_H_act', 'get_H_act', 'sum'), ('get_G_act', 'get_G_act', 'min')]
    if th:
        combos += [('get_HoRT_act', 'get_HoRT_act', 'min'), ('get_GoRT_act', 'get_HoRT_act', 'sum'), ('get_H_act', 'get_G_act', 'min')]
    for (act, ads, op) in combos:
        for ts in (False, True):
            g.append(dict(name='surf.inp/%s/%s/%s/two_sites=%s' % (act, ads, op, ts), harness=h_surf, params=dict(two_sites=ts, act=act, ads=ads, op=op),
                          no_validate=True, max_paths=2000))
    for n in (1, 2, 3) if th else (1, 2):
        for gas in (False, True):
            if n > 1 and not gas:
                continue        # surface reactions with 2+ run conditions: > 1 h per group (clamp paths multiply per condition)
            g.append(dict(name='EA/%dcond/gas=%s' % (n, gas), harness=h_EA, params=dict(ncond=n, gas=gas), no_validate=True, max_paths=4000))
    for n in (1, 3):
        g.append(dict(name='T_flow/%d' % n, harness=h_T_flow, params=dict(n=n), no_validate=True))
    for n in (1, 2):
        g.append(dict(name='tube_mole/%dcond' % n, harness=h_tube_mole, params=dict(ncond=n), no_validate=True))
    g += _reader_groups(tier)
    return g
