"""C18  Identifier ranges and CTI line wrapping preserve their contents."""
import re
from checks.common import *

META = dict(
    functions=['pmutt.cantera._get_omkm_range', 'pmutt.io.cantera.obj_to_cti'],
    bounds=dict(quick='identifier collections of 1-3 ids; prefixes of 0-2 symbolic characters from {_, a, b, c} (so prefixes may contain the '
                      'delimiter, be equal or differ), with or without the delimiter; suffixes of 1-5 symbolic decimal digits; any order, '
                      'duplicates allowed; ids as str / objects with .id / objects with .name; str and list output. Wrapping: 0-5 tokens of '
                      'symbolic length 1-30, (line_len, max_line_len) in {(80,80),(60,80),(30,100),(40,40)}',
                thorough='up to 4 ids per prefix pattern; 0-6 tokens'),
    outside_claim=['more than 4 ids (sorting/grouping forks grow factorially)', 'suffixes that are not decimal digit strings with symbolic content '
                   '(covered by concrete cases: sign, blank, letter, empty)', 'symbolic line widths'],
    stubs=[],
    assumptions=['prefix alphabet {_, a, b, c}; the delimiter is the default "_"'],
)

USES_STRINGS = True
PREFIX_RANGES = [(95, 95), (97, 99)]


class Obj:
    pass


def _mk_id(ctx, tag, plen, delim, slen):
    """-> (argument cells/str, prefix cells, digit cells)"""
    pre = [ctx.char('%s.p%d' % (tag, i), PREFIX_RANGES) for i in range(plen)]
    dig = [ctx.char('%s.d%d' % (tag, i), [(48, 57)]) for i in range(slen)]
    cells = pre + (['_'] if delim else []) + dig
    return ctx.string(cells), pre, delim, dig


def _val(ctx, dig):
    v = 0
    for d in dig:
        v = v * 10 + (ctx.code(d) - 48)
    return v


def _canonical(ctx, dig):
    """the digit string equals '{:04d}'.format(its value)"""
    L = len(dig)
    if L == 4:
        return True
    if L < 4:
        return False
    return ctx.code(dig[0]) != 48


def _decode(ctx, out):
    """entries of the output: list of (header string, first value, last value)"""
    ents = []
    if ctx.is_sym():
        from symx.symstr import SymStr, Tok
        if isinstance(out, list):
            for piece in out:
                ents.extend(_decode(ctx, piece))
            return ents
        cells = list(out.cells)
        i = 0
        n = len(cells)

        def lit(k, text):
            return all(k + j < n and cells[k + j] == ch for j, ch in enumerate(text))
        while i < n:
            if not (isinstance(cells[i], str) and cells[i] == '"'):
                i += 1
                continue
            i += 1
            hdr = []
            while i < n and not isinstance(cells[i], Tok):
                hdr.append(cells[i])
                i += 1
            t1 = cells[i]
            i += 1
            if lit(i, ' to '):
                i += 4
                hdr2 = []
                while i < n and not isinstance(cells[i], Tok):
                    hdr2.append(cells[i])
                    i += 1
                t2 = cells[i]
                i += 1
                ents.append((SymStr(hdr), t1.val, t2.val, SymStr(hdr2), _spelled_ok(t1) & _spelled_ok(t2)))
            else:
                ents.append((SymStr(hdr), t1.val, t1.val, SymStr(hdr), _spelled_ok(t1)))
            assert cells[i] == '"', 'unterminated entry'
            i += 1
        return ents
    text = out if isinstance(out, str) else ' '.join(out)
    for m in re.finditer(r'"([^"]*?)(\d{4,})(?: to ([^"]*?)(\d{4,}))?"', text):
        h1, a, h2, b = m.group(1), m.group(2), m.group(3), m.group(4)
        if b is None:
            ents.append((h1, int(a), int(a), h1, a == '%04d' % int(a)))
        else:
            ents.append((h1, int(a), int(b), h2, a == '%04d' % int(a) and b == '%04d' % int(b)))
    return ents


def _spelled_ok(tok):
    """the printed number is the zero-padded 4-digit spelling of its value ('{:04d}'): decided from the format spec of the token"""
    import re as _re
    m = _re.fullmatch(r'0(\d+)d', tok.spec or '')
    if not m:
        return False
    n = int(m.group(1))
    if n == 4:
        return tok.val >= 0
    if n < 4:
        return tok.val >= 1000
    return tok.val >= 10 ** (n - 1)


def _hdr_of(ctx, pre, delim):
    """header + delimiter as the id really spells it"""
    return ctx.string(list(pre) + (['_'] if delim else []))


def h_range(ctx, shapes, kind, fmt):
    """shapes: per id (prefix length, has delimiter, number of digits)"""
    from pmutt.cantera import _get_omkm_range
    ids = []
    for k, (plen, delim, slen) in enumerate(shapes):
        s, pre, dl, dig = _mk_id(ctx, 'id%d' % k, plen, delim, slen)
        ids.append((s, pre, dl, dig))
    args = []
    for s, _, _, _ in ids:
        if kind == 'str':
            args.append(s)
        else:
            o = Obj()
            setattr(o, kind, s)
            args.append(o)
    try:
        out = _get_omkm_range(args, format=fmt)
    except (ValueError, TypeError):
        # rejection is always allowed by the property ("rejected rather than altered")
        ctx.true('rejected with an error', True)
        return
    ents = _decode(ctx, out)
    # (1) every input id is denoted, under its own spelling
    for k, (s, pre, dl, dig) in enumerate(ids):
        hdr = _hdr_of(ctx, pre, dl)
        v = _val(ctx, dig)
        found = False
        for (h1, a, b, h2, _ok) in ents:
            c = (h1 == hdr) & (h2 == hdr) & (a <= v) & (v <= b) if ctx.is_sym() else (h1 == hdr and h2 == hdr and a <= v <= b)
            found = c if found is False else (found | c)
        ctx.true('id %d is denoted by the output' % k, found)
        ctx.true('id %d keeps its spelling (digits already in the 4-digit zero-padded form), else it must be rejected' % k,
                 _canonical(ctx, dig))
    # (2) nothing else is denoted: each entry covers exactly as many distinct inputs as it spans
    for e, (h1, a, b, h2, ok) in enumerate(ents):
        ctx.true('entry %d: numbers spelled in the zero-padded 4-digit form the ids use' % e, ok)
        ctx.true('entry %d: one prefix on both ends of a range' % e, h1 == h2)
        ctx.true('entry %d: range ascending' % e, a <= b)
        distinct = []
        for k, (s, pre, dl, dig) in enumerate(ids):
            hdr = _hdr_of(ctx, pre, dl)
            v = _val(ctx, dig)
            inside = bool((h1 == hdr) & (a <= v) & (v <= b)) if ctx.is_sym() else (h1 == hdr and a <= v <= b)
            if inside and not any(bool(v == w) for w in distinct):
                distinct.append(v)
        ctx.true('entry %d spans exactly the input ids it denotes (none added)' % e, (b - a + 1) == len(distinct))


def h_range_concrete(ctx):
    """concrete corner cases: empty input, string passthrough, suffixes that are not digit strings"""
    from pmutt.cantera import _get_omkm_range
    ctx.true('empty list', _get_omkm_range([]) == '[]')
    ctx.true('string passes through', _get_omkm_range('all') == 'all')
    for bad in (['r_12a4'], ['r_'], ['r_ 001'], [7], ['r_+001'], ['r_1_'], ['r_0x11'], ['r_1'], ['r_00012'], ['r_١٢٣٤']):
        try:
            out = _get_omkm_range(bad)
        except (ValueError, TypeError):
            ctx.true('unencodable id %r rejected' % (bad,), True)
        else:
            ctx.true('unencodable id %r rejected (got %r)' % (bad, out), False)
    ctx.true('documented example', _get_omkm_range(['r_0001', 'r_0002', 'r_0003', 'r_0005']) == '["r_0001 to r_0003", "r_0005"]')
    ctx.true('gaps, order and two prefixes',
             set(_get_omkm_range(['b_0007', 'a_0002', 'a_0001', 'b_0009'], format='list')) == {'"a_0001 to a_0002"', '"b_0007"', '"b_0009"'})


def h_wrap(ctx, ntok, line_len, max_line_len):
    from pmutt.io.cantera import obj_to_cti
    toks = [ctx.blob('tok%d' % i, 1, 30) for i in range(ntok)]
    out = obj_to_cti(list(toks), line_len=line_len, max_line_len=max_line_len)
    lines = out.split('\n')
    # tokens in order
    seen = []
    per_line = []
    for ln in lines:
        cnt = 0
        for piece in ln.split(' '):
            core = piece.strip('"')
            if ctx.is_sym() and not isinstance(core, str):
                if ctx.is_blob(core):
                    seen.append(core)
                    cnt += 1
                elif len(core.cells) > 0:
                    ctx.fail('unexpected piece in the wrapped text')
            elif core != '':
                seen.append(core)
                cnt += 1
        per_line.append(cnt)
    ctx.true('every token present exactly once, in order', len(seen) == ntok and all(ctx.same_blob(a, b) for a, b in zip(seen, toks)))
    for k, ln in enumerate(lines):
        limit = line_len if k == 0 else max_line_len
        L = ctx.length(ln)
        # a line may exceed the width only when it holds a single token that is itself too long
        ctx.true('line %d within the requested width unless it holds a single token' % k, (L <= limit) | (per_line[k] <= 1))


def groups(tier):
    th = tier == 'thorough'
    g = []
    g.append(dict(name='range/concrete-corner-cases', harness=h_range_concrete, no_validate=True))
    one = [[(1, True, 4)], [(0, False, 4)], [(1, True, 1)], [(1, True, 5)], [(0, True, 4)], [(2, True, 4)], [(0, False, 2)], [(1, True, 3)]]
    two = [[(1, True, 4), (1, True, 4)], [(0, False, 4), (0, False, 4)], [(1, True, 4), (0, False, 4)], [(2, True, 4), (1, True, 4)],
           [(1, True, 4), (1, True, 5)], [(2, True, 4), (2, True, 4)], [(1, True, 2), (1, True, 4)], [(0, True, 4), (0, False, 4)]]
    three = [[(1, True, 4)] * 3, [(0, False, 4)] * 3, [(1, True, 4), (1, True, 4), (0, False, 4)]]
    if th:
        three += [[(2, True, 4)] * 3, [(1, True, 4), (1, True, 5), (1, True, 4)]]
        two += [[(2, True, 5), (2, True, 5)], [(1, True, 1), (1, True, 1)]]
    four = [[(1, True, 4)] * 4] if th else []
    k = 0
    for shapes in one + two + three + four:
        for kind in ('str', 'id', 'name'):
            for fmt in ('str', 'list'):
                k += 1
                if not th and kind != 'str' and (k % 3):
                    continue
                if not th and len(shapes) == 3 and fmt == 'list' and kind != 'str':
                    continue
                nm = 'range/%s/%s/%s' % ('+'.join('%dp%s%dd' % (p, '_' if d else '', s) for p, d, s in shapes), kind, fmt)
                g.append(dict(name=nm, harness=h_range, params=dict(shapes=shapes, kind=kind, fmt=fmt), no_validate=True, max_paths=20000,
                              budget_s=1500 if not th else 7000))
    for (ll, ml) in ((80, 80), (60, 80), (30, 100), (40, 40)):
        for n in (range(0, 7) if th else range(0, 6)):
            if not th and n >= 5 and (ll, ml) != (30, 100):
                continue
            g.append(dict(name='wrap/%dtok/line_len=%d/max=%d' % (n, ll, ml), harness=h_wrap, params=dict(ntok=n, line_len=ll, max_line_len=ml),
                          no_validate=True, max_paths=20000))
    return g
