"""C09  Kinetic parameters respect the reaction's thermodynamics."""
from checks.common import *
from checks.stubs import StubSpecies, CatSite, ref_val

META = dict(
    functions=['pmutt.reaction.ChemkinReaction.get_HoRT_act/get_H_act/get_GoRT_act/get_G_act/get_A/_get_n_surf',
               'pmutt.omkm.reaction.SurfaceReaction.get_HoRT_act/get_H_act/get_GoRT_act/get_G_act/get_A/_get_n_surf',
               'pmutt.reaction.Reaction.get_A/get_EoRT_act/get_E_act', 'pmutt.reaction.bep.BEP._get_descriptor_val/_get_adjusted_slope/'
               'get_E_act/get_EoRT_act/get_UoRT/get_HoRT/get_GoRT'],
    bounds=dict(quick='1-2 reactants/products, with and without a transition state, both directions; species values affine in T,P with '
                      'symbolic coefficients (so exo/endothermic, barrierless/high-barrier are all inside); all 8 BEP descriptors x rev, '
                      'slope [0,1], intercept [0,60]; 0-3 surface reactants (integer stoichiometry 1-3), site densities symbolic in '
                      '[1e-11,1e-8], sden_operation sum/min/max/mean, unit systems molec/cm2, mol/cm2, mol/m2, molec/m2, Units objects; '
                      'T in [50,5000]'),
    outside_claim=['IEEE rounding', 'non-integer surface stoichiometry in get_A (the code replicates site densities int(stoich) times)'],
    stubs=['species = StubSpecies (getter protocol)'],
    assumptions=[],
)

UNITS_E = ['J/mol', 'kJ/mol', 'cal/mol', 'kcal/mol', 'eV', 'Eh']


def _rxn(ctx, kind, nr, npr, ts, **extra):
    if kind == 'ChemkinReaction':
        from pmutt.reaction import ChemkinReaction as cls
    elif kind == 'SurfaceReaction':
        from pmutt.omkm.reaction import SurfaceReaction as cls
    else:
        from pmutt.reaction import Reaction as cls
    R = [StubSpecies(ctx, n) for n in ['A', 'AB'][:nr]]
    P = [StubSpecies(ctx, n) for n in ['B', 'A2'][:npr]]
    TS = [StubSpecies(ctx, 'TS')] if ts else None
    nuR = [ctx.real('nu_%s' % s.name, 0.25, 4) for s in R]
    nuP = [ctx.real('nu_%s' % s.name, 0.25, 4) for s in P]
    nuT = [ctx.real('nu_TS', 0.25, 4)] if ts else None
    rxn = cls(reactants=R, reactants_stoich=list(nuR), products=P, products_stoich=list(nuP),
              transition_state=TS, transition_state_stoich=nuT, **extra)
    return rxn, (R, nuR), (P, nuP), (TS or [], nuT or [])


def _sum(side, q, T, P):
    tot = 0
    for s, n in zip(*side):
        tot = tot + n * ref_val(s, q, T, P)
    return tot


def _is_max(ctx, label, res, cands):
    c = None
    for x in cands:
        ctx.true('%s >= %s' % (label, x[0]), res >= x[1])
        e = (res == x[1])
        c = e if c is None else (c | e)
    ctx.true('%s equals one of its candidates' % label, c)


def h_clamp(ctx, kind, nr, npr, ts, rev, q):
    rxn, Rs, Ps, Ts = _rxn(ctx, kind, nr, npr, ts)
    T = ctx.real('T', 50, 5000)
    P = ctx.real('P', 1e-4, 1e3)
    X = q + 'oRT'
    r, p = _sum(Rs, X, T, P), _sum(Ps, X, T, P)
    ini, fin = (p, r) if rev else (r, p)
    cands = [('0', 0.0), ('reaction change', fin - ini)]
    if ts:
        cands.append(('TS barrier', _sum(Ts, X, T, P) - ini))
    res = getattr(rxn, 'get_%s_act' % X)(rev=rev, T=T, P=P)
    _is_max(ctx, '%s_act(rev=%s)' % (X, rev), res, cands)
    from pmutt import constants as c
    for u in (UNITS_E if q == 'H' else UNITS_E[:3]):
        dim = getattr(rxn, 'get_%s_act' % q)(units=u, T=T, rev=rev, P=P)
        ctx.eq('%s_act(%s, rev=%s) = %soRT_act * R * T' % (q, u, rev, q), dim, res * c.R(u + '/K') * T)


def h_bep(ctx, descriptor, kind):
    from pmutt.reaction.bep import BEP
    from pmutt import constants as c
    if kind == 'Reaction':
        from pmutt.reaction import Reaction as cls
    else:
        from pmutt.reaction import ChemkinReaction as cls
    slope = ctx.real('slope', 0, 1)
    icpt = ctx.real('intercept', 0, 60)
    bep = BEP(slope=slope, intercept=icpt, name='BEP', descriptor=descriptor)
    R = [StubSpecies(ctx, n) for n in ['A', 'AB']]
    P = [StubSpecies(ctx, n) for n in ['B']]
    nuR = [ctx.real('nu_%s' % s.name, 0.25, 4) for s in R]
    nuP = [ctx.real('nu_%s' % s.name, 0.25, 4) for s in P]
    rxn = cls(reactants=R, reactants_stoich=list(nuR), products=P, products_stoich=list(nuP),
              transition_state=[bep], transition_state_stoich=[1.])
    T = ctx.real('T', 50, 5000)
    P_ = ctx.real('P', 1e-4, 1e3)
    RT = c.R('kcal/mol/K') * T
    q = 'HoRT' if descriptor.endswith('_H') else 'EoRT'
    r, p = _sum((R, nuR), q, T, P_), _sum((P, nuP), q, T, P_)
    Ef = bep.get_E_act(units='kcal/mol', reaction=rxn, rev=False, T=T, P=P_)
    Er = bep.get_E_act(units='kcal/mol', reaction=rxn, rev=True, T=T, P=P_)
    if 'delta' in descriptor:
        ctx.eq('E_fwd - E_rev = reaction %s' % ('enthalpy' if q == 'HoRT' else 'energy'), Ef - Er, (p - r) * RT)
    # textbook BEP with the documented direction convention
    d = {'delta': (p - r), 'rev_delta': (r - p), 'reactants': r, 'products': p}[descriptor.rsplit('_', 1)[0]] * RT
    if descriptor.startswith('rev_delta'):
        ctx.eq('E_rev = slope * descriptor + intercept', Er, slope * d + icpt)
        ctx.eq('E_fwd = (slope-1) * descriptor + intercept', Ef, (slope - 1) * d + icpt)
    else:
        ctx.eq('E_fwd = slope * descriptor + intercept', Ef, slope * d + icpt)
        ctx.eq('E_rev = (slope-1) * descriptor + intercept', Er, (slope - 1) * d + icpt)
    for u in ('kJ/mol', 'eV/molecule'):
        ctx.eq('E_act(%s) = E_act(kcal/mol) converted' % u, bep.get_E_act(units=u, reaction=rxn, T=T, P=P_),
               Ef * c.convert_unit(initial='kcal/mol', final=u), rel=1e-12)
    ctx.eq('EoRT_act = E_act / RT', bep.get_EoRT_act(reaction=rxn, T=T, P=P_), Ef / RT)
    ctx.eq('EoRT_act(rev) = E_act(rev) / RT', bep.get_EoRT_act(reaction=rxn, rev=True, T=T, P=P_), Er / RT)
    # the same barrier whether taken from the relation or from the reaction's TS enthalpy
    Hr = _sum((R, nuR), 'HoRT', T, P_)
    Ur = _sum((R, nuR), 'UoRT', T, P_)
    ctx.eq('BEP.get_HoRT - H_reactants = forward barrier', bep.get_HoRT(reaction=rxn, T=T, P=P_) - Hr, Ef / RT)
    ctx.eq('BEP.get_UoRT - U_reactants = forward barrier (same barrier as H)', bep.get_UoRT(reaction=rxn, T=T, P=P_) - Ur, Ef / RT)
    if kind == 'Reaction':
        ctx.eq('Reaction.get_HoRT_act = forward barrier', rxn.get_HoRT_act(T=T, P=P_), Ef / RT)
        ctx.eq('Reaction.get_delta_HoRT(act) = forward barrier', rxn.get_delta_HoRT(act=True, T=T, P=P_), Ef / RT)
        Hp = _sum((P, nuP), 'HoRT', T, P_)
        ctx.eq('Reaction.get_HoRT_act(rev) = forward barrier - reaction enthalpy', rxn.get_HoRT_act(rev=True, T=T, P=P_), Ef / RT - (Hp - Hr))
        ctx.eq('Reaction.get_EoRT_act = H_act + (1 - del_m)', rxn.get_EoRT_act(T=T, P=P_), Ef / RT)
    Sr = _sum((R, nuR), 'SoR', T, P_)
    ctx.eq('BEP.get_GoRT = HoRT - S_reactants', bep.get_GoRT(reaction=rxn, T=T, P=P_), bep.get_HoRT(reaction=rxn, T=T, P=P_) - Sr)
    ctx.eq('BEP.get_GoRT(entropy_state=None) = HoRT', bep.get_GoRT(reaction=rxn, T=T, P=P_, entropy_state=None),
           bep.get_HoRT(reaction=rxn, T=T, P=P_))


def h_bep_bad(ctx):
    from pmutt.reaction.bep import BEP
    bep = BEP(slope=0.5, intercept=10., descriptor='delta_G')
    rxn, Rs, Ps, Ts = _rxn(ctx, 'Reaction', 1, 1, False)
    try:
        bep.get_E_act(units='kcal/mol', reaction=rxn, T=300.)
    except ValueError:
        ctx.true('unsupported descriptor refused', True)
    else:
        ctx.fail('unsupported descriptor refused')


def h_A_reaction(ctx, rev, m, use_q):
    from pmutt import constants as c
    rxn, Rs, Ps, Ts = _rxn(ctx, 'Reaction', 2, 1, True)
    T = ctx.real('T', 50, 5000)
    P = ctx.real('P', 1e-4, 1e3)
    ini = Ps if rev else Rs
    if m == 'molecularity':
        mm = sum(ini[1][1:], ini[1][0])
        A = rxn.get_A(T=T, P=P, rev=rev, m=None, use_q=use_q)
    else:
        mm = m
        A = rxn.get_A(T=T, P=P, rev=rev, m=m, use_q=use_q)
    pref = c.kb('J/K') * T / c.h('J s')
    if use_q:
        qt, qi = 1.0, 1.0
        for s, n in zip(*Ts):
            qt = qt * exp(ctx, n * log(ctx, ref_val(s, 'q', T, P)))
        for s, n in zip(*ini):
            qi = qi * exp(ctx, n * log(ctx, ref_val(s, 'q', T, P)))
        want = pref * (qt / qi) * exp(ctx, mm)
    else:
        dS = _sum(Ts, 'SoR', T, P) - _sum(ini, 'SoR', T, P)
        want = pref * exp(ctx, dS) * exp(ctx, mm)
    ctx.eq('A = (kB T/h) * %s * exp(m)' % ('q_TS/q_IS' if use_q else 'exp(dS_act/R)'), A, want)
    ctx.true('A > 0', A > 0)


def _surface_rxn(ctx, kind, n_surf_stoich, ts, with_gas=True, bulk=False):
    """reactants: optional gas species + surface species with integer stoichiometry"""
    sig = [ctx.real('sigma%d' % i, 1e-11, 1e-8) for i in range(len(n_surf_stoich))]
    R, nu = [], []
    if kind == 'ChemkinReaction':
        from pmutt.reaction import ChemkinReaction as cls
        if with_gas:
            R.append(StubSpecies(ctx, 'G1', phase='G'))
            nu.append(1.)
        for i, st in enumerate(n_surf_stoich):
            site = CatSite('site%d' % i, sig[i], bulk_specie='BULK%d' % i)
            R.append(StubSpecies(ctx, 'S%d' % i, phase='S', cat_site=site))
            nu.append(float(st))
        if bulk:
            site = CatSite('siteB', ctx.real('sigmaB', 1e-11, 1e-8), bulk_specie='BULK')
            R.append(StubSpecies(ctx, 'BULK', phase='S', cat_site=site))
            nu.append(1.)
        P = [StubSpecies(ctx, 'P1', phase='S', cat_site=CatSite('siteP', 1e-9, 'BULKP'))]
    else:
        from pmutt.omkm.reaction import SurfaceReaction as cls
        from pmutt.omkm.phase import InteractingInterface, IdealGas
        if with_gas:
            g = StubSpecies(ctx, 'G1')
            IdealGas(name='gas', species=[g])
            R.append(g)
            nu.append(1.)
        for i, st in enumerate(n_surf_stoich):
            s = StubSpecies(ctx, 'S%d' % i)
            InteractingInterface(name='surf%d' % i, species=[s], site_density=sig[i])
            R.append(s)
            nu.append(float(st))
        pp = StubSpecies(ctx, 'P1')
        InteractingInterface(name='surfP', species=[pp], site_density=1e-9)
        P = [pp]
    TS = [StubSpecies(ctx, 'TS')] if ts else None
    rxn = cls(reactants=R, reactants_stoich=nu, products=P, products_stoich=[1.],
              transition_state=TS, transition_state_stoich=[1.] if ts else None)
    return rxn, sig, (R, nu), TS


def _eff(op, sig, stoich):
    vals = []
    for s, n in zip(sig, stoich):
        vals.extend([s] * n)
    if op == 'sum':
        return sum(vals[1:], vals[0])
    if op == 'mean':
        return sum(vals[1:], vals[0]) / len(vals)
    best = vals[0]
    for v in vals[1:]:
        if (v > best) if op == 'max' else (v < best):
            best = v
    return best


def h_A_surface(ctx, kind, stoich, op, ts, units=None, bulk=False):
    from pmutt import constants as c
    rxn, sig, (R, nu), TS = _surface_rxn(ctx, kind, stoich, ts, bulk=bulk)
    T = ctx.real('T', 50, 5000)
    n_surf = sum(stoich)
    kw = {}
    conv = 1.0
    if kind == 'SurfaceReaction':
        if units is not None:
            if isinstance(units, tuple):
                from pmutt.omkm.units import Units
                kw['units'] = Units(length=units[1], quantity=units[0])
                qu, au = units[0], units[1] + '2'
            else:
                kw['units'] = units
                qu, au = units.split('/')
            conv = c.convert_unit(initial='mol', final=qu) / c.convert_unit(initial='cm2', final=au)
        else:
            conv = c.convert_unit(initial='mol', final='molec')
    if n_surf == 0 and kind == 'SurfaceReaction':
        try:
            rxn.get_A(T=T, sden_operation=op, **kw)
        except ValueError:
            ctx.true('no site density available is reported', True)
        else:
            ctx.fail('no site density available is reported')
        return
    A = rxn.get_A(T=T, sden_operation=op, **kw)
    if ts:
        qt = ref_val(TS[0], 'q', T, 7.0)
        qi = 1.0
        for s, n in zip(R, nu):
            qi = qi * exp(ctx, n * log(ctx, ref_val(s, 'q', T, 7.0)))
        pre = c.kb('J/K') / c.h('J s') * qt / qi
    else:
        pre = c.kb('J/K') / c.h('J s')
    if n_surf == 0:
        ctx.eq('A without surface reactants = prefactor (no site-density scaling)', A, pre, rel=1e-12)
    else:
        eff = _eff(op, sig, stoich) * conv
        ctx.eq('A = prefactor * site_density^(1 - n_surf)', A * eff**(n_surf - 1), pre, rel=1e-12)
    ctx.true('A > 0', A > 0)
    if not ts:
        A2 = rxn.get_A(T=T * 2, sden_operation=op, **kw)
        ctx.eq('without a transition state A is kB/h per unit temperature (T-independent)', A2, A)
        A3 = rxn.get_A(T=T, sden_operation=op, include_entropy=False, **kw)
        ctx.eq('include_entropy irrelevant without TS', A3, A)


def groups(tier):
    th = tier == 'thorough'
    g = []
    for kind in ('ChemkinReaction', 'SurfaceReaction'):
        for (nr, npr) in ((1, 1), (2, 2)) if th else ((2, 1),):
            for ts in (False, True):
                for rev in (False, True):
                    for q in ('H', 'G'):
                        g.append(dict(name='clamp/%s/%dr%dp/ts=%s/rev=%s/%s' % (kind, nr, npr, ts, rev, q), harness=h_clamp,
                                      params=dict(kind=kind, nr=nr, npr=npr, ts=ts, rev=rev, q=q)))
    for d in ('delta_H', 'rev_delta_H', 'reactants_H', 'products_H', 'delta_E', 'rev_delta_E', 'reactants_E', 'products_E'):
        g.append(dict(name='bep/Reaction/%s' % d, harness=h_bep, params=dict(descriptor=d, kind='Reaction')))
        if th or d in ('delta_H', 'rev_delta_E'):
            g.append(dict(name='bep/ChemkinReaction/%s' % d, harness=h_bep, params=dict(descriptor=d, kind='ChemkinReaction')))
    g.append(dict(name='bep/unsupported-descriptor', harness=h_bep_bad, no_validate=True))
    for rev in (False, True):
        for m in (0, 1, 'molecularity'):
            for use_q in (True, False):
                g.append(dict(name='A/Reaction/rev=%s/m=%s/use_q=%s' % (rev, m, use_q), harness=h_A_reaction,
                              params=dict(rev=rev, m=m, use_q=use_q)))
    stoichs = [(), (1,), (2,), (1, 1), (3,), (1, 2), (1, 1, 1)]
    ops = ('sum', 'min', 'max', 'mean')
    for kind in ('ChemkinReaction', 'SurfaceReaction'):
        for st in stoichs:
            for op in (ops if (len(st) > 1 or th) else ('sum',)):
                for ts in ((False, True) if (th or st in ((1,), (1, 1))) else (False,)):
                    nm = 'A/%s/surf=%s/%s/ts=%s' % (kind, '+'.join(map(str, st)) or 'none', op, ts)
                    g.append(dict(name=nm, harness=h_A_surface, params=dict(kind=kind, stoich=st, op=op, ts=ts)))
    g.append(dict(name='A/ChemkinReaction/bulk-species-ignored', harness=h_A_surface,
                  params=dict(kind='ChemkinReaction', stoich=(1, 1), op='sum', ts=False, bulk=True)))
    for u in ('molec/cm2', 'mol/cm2', 'mol/m2', 'molec/m2', ('mol', 'm'), ('molec', 'cm'), ('mol', 'cm')):
        for st in ((2,), (1, 1)) if not th else ((2,), (1, 1), (3,), (1,)):
            g.append(dict(name='A/SurfaceReaction/units=%s/surf=%s' % (u if isinstance(u, str) else 'Units(%s,%s)' % u, '+'.join(map(str, st))),
                          harness=h_A_surface, params=dict(kind='SurfaceReaction', stoich=st, op='sum', ts=False, units=u)))
    return g
