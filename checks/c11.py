"""C11  JSON serialisation round-trips every pMuTT object."""
import json
from checks.common import *

META = dict(
    functions=['pmutt.io.json.pmuttEncoder.default/json_to_pmutt/type_to_class/remove_class', 'to_dict/from_dict of every serialisable class '
               '(mode models, StatMech, Nasa, Nasa9, SingleNasa9, Shomate, Reference(s), GasPressureAdj, PiecewiseCovEffect, CatSite, BEP, LSR, '
               'Reaction, ChemkinReaction, SurfaceReaction, Reactions, PhaseDiagram, equations of state)', '_pmuttBase.to_dict/from_dict'],
    bounds=dict(quick='every class in the list, each built with all numeric attributes symbolic (strings, names and structure concrete), nested '
                      '(species inside reactions inside reaction sets); encode-decode applied once and twice; every public getter compared between '
                      'original and copy as a term equality for all attribute values, T and P'),
    outside_claim=['the byte-level JSON text (json.dumps/loads are replaced by the structural walk the stdlib documents: default() on every '
                   'non-JSON object, object_hook bottom-up on every dict, non-string keys coerced to str, tuples to lists); each counterexample is '
                   'replayed with the real json module', 'objects holding ASE Atoms', 'Zacros'],
    stubs=['json.dumps(obj, cls=pmuttEncoder) / json.loads(text, object_hook=json_to_pmutt): structural walk'],
    assumptions=[],
)


def _encode(o):
    """what json.dumps(cls=pmuttEncoder) followed by plain json.loads yields, structurally"""
    import numpy as np
    from pmutt.io.json import pmuttEncoder
    if o is None or isinstance(o, (bool, str)):
        return o
    if isinstance(o, (int, float)) and not isinstance(o, (np.integer,)):
        return o
    if type(o).__name__ in ('Sym', 'SymStr'):
        return o
    if isinstance(o, dict):
        out = {}
        for k, v in o.items():
            if isinstance(k, str):
                kk = k
            elif isinstance(k, bool):
                kk = 'true' if k else 'false'
            elif k is None:
                kk = 'null'
            elif isinstance(k, (int, float)) and not isinstance(k, np.integer):
                kk = str(k)
            else:
                raise TypeError('keys must be str, int, float, bool or None, not %s' % type(k).__name__)
            out[kk] = _encode(v)
        return out
    if isinstance(o, (list, tuple)):
        return [_encode(x) for x in o]
    d = pmuttEncoder().default(o)
    if d is None:
        raise TypeError('Object of type %s is not JSON serializable' % type(o).__name__)
    return _encode(d)


def _decode(x):
    from pmutt.io.json import json_to_pmutt
    if isinstance(x, list):
        return [_decode(v) for v in x]
    if isinstance(x, dict):
        return json_to_pmutt({k: _decode(v) for k, v in x.items()})
    return x


def roundtrip(ctx, obj):
    if ctx.is_sym():
        return _decode(_encode(obj))
    from pmutt.io.json import pmuttEncoder, json_to_pmutt
    return json.loads(json.dumps(obj, cls=pmuttEncoder), object_hook=json_to_pmutt)


def _deep_snapshot(x):
    if isinstance(x, dict):
        return {k: _deep_snapshot(v) for k, v in x.items()}
    if isinstance(x, list):
        return [_deep_snapshot(v) for v in x]
    return x


def _deep_same(a, b):
    if isinstance(a, dict):
        return isinstance(b, dict) and list(a.keys()) == list(b.keys()) and all(_deep_same(a[k], b[k]) for k in a)
    if isinstance(a, list):
        return isinstance(b, list) and len(a) == len(b) and all(_deep_same(x, y) for x, y in zip(a, b))
    return a is b or (type(a) is type(b) and isinstance(a, (int, float, str, bool)) and a == b)


# ------------------------------------------------------------------------------------------------ cases
def _num(ctx, name, lo, hi):
    return ctx.real(name, lo, hi)


def mk_FreeTrans(ctx):
    from pmutt.statmech.trans import FreeTrans
    return FreeTrans(n_degrees=2, molecular_weight=_num(ctx, 'M', 1, 500))


def mk_HarmonicVib(ctx):
    from pmutt.statmech.vib import HarmonicVib
    return HarmonicVib(vib_wavenumbers=[_num(ctx, 'w0', 10, 4500), _num(ctx, 'w1', -500, -10)], imaginary_substitute=_num(ctx, 'sub', 10, 4500))


def mk_QRRHOVib(ctx):
    from pmutt.statmech.vib import QRRHOVib
    return QRRHOVib(vib_wavenumbers=[_num(ctx, 'w0', 10, 4500)], Bav=_num(ctx, 'Bav', 1e-46, 1e-42), v0=_num(ctx, 'v0', 10, 500), alpha=3,
                    imaginary_substitute=_num(ctx, 'sub', 10, 4500))


def mk_EinsteinVib(ctx):
    from pmutt.statmech.vib import EinsteinVib
    return EinsteinVib(einstein_temperature=_num(ctx, 'thE', 50, 2000), interaction_energy=_num(ctx, 'u', -10, 10))


def mk_DebyeVib(ctx):
    from pmutt.statmech.vib import DebyeVib
    return DebyeVib(debye_temperature=_num(ctx, 'thD', 50, 2000), interaction_energy=_num(ctx, 'u', -10, 10))


def mk_RigidRotor(ctx):
    from pmutt.statmech.rot import RigidRotor
    return RigidRotor(symmetrynumber=_num(ctx, 'sigma', 1, 24), rot_temperatures=[_num(ctx, 'tr%d' % i, 0.01, 100) for i in range(3)], geometry='nonlinear')


def mk_GroundStateElec(ctx):
    from pmutt.statmech.elec import GroundStateElec
    return GroundStateElec(potentialenergy=_num(ctx, 'E', -100, 100), spin=_num(ctx, 'spin', 0, 3), D0=_num(ctx, 'D0', 0, 10))


def mk_EmptyNucl(ctx):
    from pmutt.statmech.nucl import EmptyNucl
    return EmptyNucl()


def mk_EmptyMode(ctx):
    from pmutt.statmech import EmptyMode
    return EmptyMode()


def mk_ConstantMode(ctx):
    from pmutt.statmech import ConstantMode
    return ConstantMode(q=_num(ctx, 'q', 0.1, 10), Cv=_num(ctx, 'Cv', -1, 1), Cp=_num(ctx, 'Cp', -1, 1), U=_num(ctx, 'U', -1, 1), H=_num(ctx, 'H', -1, 1),
                        S=_num(ctx, 'S', -1, 1), F=_num(ctx, 'F', -1, 1), G=_num(ctx, 'G', -1, 1), notes='n')


def mk_StatMech(ctx):
    from pmutt.statmech import StatMech, trans, vib, rot, elec, nucl
    return StatMech(name='H2O', trans_model=trans.FreeTrans(n_degrees=3, molecular_weight=_num(ctx, 'M', 1, 500)),
                    vib_model=vib.HarmonicVib(vib_wavenumbers=[_num(ctx, 'w0', 10, 4500)]),
                    rot_model=rot.RigidRotor(symmetrynumber=2, rot_temperatures=[_num(ctx, 'tr', 0.01, 100)], geometry='linear'),
                    elec_model=elec.GroundStateElec(potentialenergy=_num(ctx, 'E', -100, 100), spin=0.5), nucl_model=nucl.EmptyNucl(),
                    elements={'H': 2, 'O': 1}, notes='note', smiles='O')


def mk_StatMech_misc(ctx):
    from pmutt.statmech import StatMech, vib
    from pmutt.mixture.cov import PiecewiseCovEffect
    return StatMech(name='CO(S)', vib_model=vib.HarmonicVib(vib_wavenumbers=[_num(ctx, 'w0', 10, 4500)]), elements={'C': 1, 'O': 1},
                    misc_models=[PiecewiseCovEffect(name_i='CO(S)', name_j='CO(S)', intervals=[0., _num(ctx, 'b1', 0.1, 0.9)],
                                                   slopes=[_num(ctx, 's0', -10, 10), _num(ctx, 's1', -10, 10)])])


def _nasa(ctx, tag='', phase='G', name='H2O', **kw):
    from pmutt.empirical.nasa import Nasa
    return Nasa(name=name, T_low=200., T_mid=1000., T_high=3500., a_low=np_array(ctx, [_num(ctx, tag + 'al%d' % i, -10, 10) for i in range(7)]),
                a_high=np_array(ctx, [_num(ctx, tag + 'ah%d' % i, -10, 10) for i in range(7)]), elements={'H': 2, 'O': 1}, phase=phase, notes='nn', **kw)


def mk_Nasa(ctx):
    return _nasa(ctx)


def mk_Nasa_misc_after_adj(ctx):
    """a gas species (pressure adjustment attached automatically) that later receives another attached model"""
    from pmutt.mixture.cov import PiecewiseCovEffect
    sp = _nasa(ctx)
    sp.misc_models.append(PiecewiseCovEffect(name_i='H2O', name_j='H2O', intervals=[0., _num(ctx, 'b1', 0.1, 0.9)],
                                             slopes=[_num(ctx, 's0', -10, 10), _num(ctx, 's1', -10, 10)]))
    return sp


def mk_Nasa_surface(ctx):
    from pmutt.chemkin import CatSite
    site = CatSite(name='PT(S)', site_density=_num(ctx, 'sden', 1e-11, 1e-8), density=_num(ctx, 'dens', 1, 30), bulk_specie='PT(B)')
    return _nasa(ctx, phase='S', name='H(S)', cat_site=site, n_sites=1)


def mk_Nasa9_descending(ctx):
    """the temperature intervals are stored hottest first (any order is accepted by the class)"""
    from pmutt.empirical.nasa import Nasa9, SingleNasa9
    segs = [SingleNasa9(T_low=1000., T_high=3500., a=np_array(ctx, [_num(ctx, 's1a%d' % i, -10, 10) for i in range(9)])),
            SingleNasa9(T_low=200., T_high=1000., a=np_array(ctx, [_num(ctx, 's0a%d' % i, -10, 10) for i in range(9)]))]
    return Nasa9(name='CH4', nasas=segs, elements={'C': 1, 'H': 4}, phase='G', notes='n9')


def mk_Nasa9(ctx):
    from pmutt.empirical.nasa import Nasa9, SingleNasa9
    segs = [SingleNasa9(T_low=200., T_high=1000., a=np_array(ctx, [_num(ctx, 's0a%d' % i, -10, 10) for i in range(9)])),
            SingleNasa9(T_low=1000., T_high=3500., a=np_array(ctx, [_num(ctx, 's1a%d' % i, -10, 10) for i in range(9)]))]
    return Nasa9(name='CH4', nasas=segs, elements={'C': 1, 'H': 4}, phase='G', notes='n9')


def mk_SingleNasa9(ctx):
    from pmutt.empirical.nasa import SingleNasa9
    return SingleNasa9(T_low=200., T_high=1000., a=np_array(ctx, [_num(ctx, 'a%d' % i, -10, 10) for i in range(9)]))


def mk_Shomate(ctx):
    from pmutt.empirical.shomate import Shomate
    return Shomate(name='CO2', T_low=298., T_high=1200., a=np_array(ctx, [_num(ctx, 'a%d' % i, -50, 50) for i in range(8)]), units='kJ/mol/K',
                   elements={'C': 1, 'O': 2}, phase='G', notes='sh')


def mk_GasPressureAdj(ctx):
    from pmutt.empirical import GasPressureAdj
    return GasPressureAdj()


def mk_PiecewiseCovEffect(ctx):
    from pmutt.mixture.cov import PiecewiseCovEffect
    return PiecewiseCovEffect(name_i='CO(S)', name_j='O(S)', intervals=[0., _num(ctx, 'b1', 0.1, 0.5), _num(ctx, 'b2', 0.6, 0.9)],
                              slopes=[_num(ctx, 's%d' % i, -10, 10) for i in range(3)], name='int_0001')


def mk_CatSite(ctx):
    from pmutt.chemkin import CatSite
    return CatSite(name='PT(S)', site_density=_num(ctx, 'sden', 1e-11, 1e-8), density=_num(ctx, 'dens', 1, 30), bulk_specie='PT(B)')


def mk_BEP(ctx):
    from pmutt.reaction.bep import BEP
    return BEP(slope=_num(ctx, 'slope', 0, 1), intercept=_num(ctx, 'icpt', 0, 60), name='BEP1', descriptor='rev_delta_H', notes='b', elements={'H': 2})


def mk_omkmBEP(ctx):
    from pmutt.omkm.reaction import BEP
    return BEP(slope=_num(ctx, 'slope', 0, 1), intercept=_num(ctx, 'icpt', 0, 60), name='b_0001', descriptor='delta_H', notes='b', direction='cleavage')


def mk_SurfaceReaction_BEP(ctx):
    """a surface reaction whose transition state is an OpenMKM BEP relationship"""
    from pmutt.omkm.reaction import SurfaceReaction, BEP
    a, b, c_, t = _species3(ctx)
    bep = BEP(slope=_num(ctx, 'slope', 0, 1), intercept=_num(ctx, 'icpt', 0, 60), name='b_0001', descriptor='delta_H', direction='cleavage')
    return SurfaceReaction(reactants=[a, b], reactants_stoich=[1., 1.], products=[c_], products_stoich=[1.], transition_state=[bep],
                           transition_state_stoich=[1.], id='r_0003', direction='cleavage', beta=_num(ctx, 'beta', 0, 2))


def _refs(ctx):
    from pmutt.empirical.references import Reference, References
    from pmutt.statmech import StatMech, elec
    r = [Reference(name='H2', elements={'H': 2}, T_ref=298.15, HoRT_ref=_num(ctx, 'Hexp0', -50, 50),
                   model=StatMech(name='H2', elec_model=elec.GroundStateElec(potentialenergy=_num(ctx, 'E0', -100, 100)), elements={'H': 2})),
         Reference(name='O2', elements={'O': 2}, T_ref=298.15, HoRT_ref=_num(ctx, 'Hexp1', -50, 50),
                   model=StatMech(name='O2', elec_model=elec.GroundStateElec(potentialenergy=_num(ctx, 'E1', -100, 100)), elements={'O': 2}))]
    return Reference, References, r


def mk_Reference(ctx):
    Reference, References, r = _refs(ctx)
    return r[0]


def mk_Reference_gas(ctx):
    """a gas-phase reference: the constructor attaches a pressure adjustment, so misc_models is a list of nested objects"""
    from pmutt.empirical.references import Reference
    from pmutt.statmech import StatMech, elec
    return Reference(name='H2', elements={'H': 2}, phase='G', T_ref=298.15, HoRT_ref=_num(ctx, 'Hexp0', -50, 50), notes='ref',
                     model=StatMech(name='H2', elec_model=elec.GroundStateElec(potentialenergy=_num(ctx, 'E0', -100, 100)), elements={'H': 2}))


def mk_References(ctx):
    Reference, References, r = _refs(ctx)
    return References(offset={'H': _num(ctx, 'offH', -10, 10), 'O': _num(ctx, 'offO', -10, 10)}, references=r)


def mk_StatMech_refs(ctx):
    from pmutt.statmech import StatMech, elec
    Reference, References, r = _refs(ctx)
    refs = References(offset={'H': _num(ctx, 'offH', -10, 10), 'O': _num(ctx, 'offO', -10, 10)}, references=r)
    return StatMech(name='H2O', elec_model=elec.GroundStateElec(potentialenergy=_num(ctx, 'E', -100, 100)), elements={'H': 2, 'O': 1}, references=refs)


def mk_LSR(ctx):
    from pmutt.statmech.lsr import LSR
    return LSR(slope=_num(ctx, 'slope', 0, 2), intercept=_num(ctx, 'icpt', -5, 5), reaction=_num(ctx, 'dE', -5, 5),
               surf_species=_num(ctx, 'Esurf', -5, 5), gas_species=_num(ctx, 'Egas', -5, 5), notes='l')


def _species3(ctx):
    return _nasa(ctx, 'A.', name='H2'), _nasa(ctx, 'B.', name='O2'), _nasa(ctx, 'C.', name='H2O'), _nasa(ctx, 'T.', name='H2O_TS')


def mk_Reaction(ctx, cls=None, **kw):
    if cls is None:
        from pmutt.reaction import Reaction as cls
    a, b, c_, t = _species3(ctx)
    return cls(reactants=[a, b], reactants_stoich=[1., _num(ctx, 'nuB', 0.25, 4)], products=[c_], products_stoich=[_num(ctx, 'nuC', 0.25, 4)],
               transition_state=[t], transition_state_stoich=[1.], notes='rx', **kw)


def mk_ChemkinReaction(ctx):
    from pmutt.reaction import ChemkinReaction
    return mk_Reaction(ctx, ChemkinReaction, beta=_num(ctx, 'beta', 0, 2), is_adsorption=True, sticking_coeff=_num(ctx, 'stick', 0, 1))


def mk_SurfaceReaction(ctx):
    from pmutt.omkm.reaction import SurfaceReaction
    return mk_Reaction(ctx, SurfaceReaction, id='r_0007', is_adsorption=False, beta=_num(ctx, 'beta', 0, 2), direction='cleavage')


def mk_SurfaceReaction_rate(ctx):
    """an adsorption with user-supplied rate parameters, any of which may be exactly zero"""
    from pmutt.omkm.reaction import SurfaceReaction
    return mk_Reaction(ctx, SurfaceReaction, id='r_0008', is_adsorption=True, beta=_num(ctx, 'beta', 0, 2), A=_num(ctx, 'A', 0, 1e13),
                       Ea=_num(ctx, 'Ea', 0, 50), sticking_coeff=_num(ctx, 'stick', 0, 1))


def mk_Reactions(ctx):
    from pmutt.reaction import Reactions, Reaction
    a, b, c_, t = _species3(ctx)
    r1 = Reaction(reactants=[a], reactants_stoich=[1.], products=[c_], products_stoich=[_num(ctx, 'nuC', 0.25, 4)])
    r2 = Reaction(reactants=[c_], reactants_stoich=[1.], products=[b], products_stoich=[1.], transition_state=[t], transition_state_stoich=[1.])
    return Reactions(reactions=[r1, r2])


def mk_PhaseDiagram(ctx):
    from pmutt.reaction.phasediagram import PhaseDiagram
    from pmutt.reaction import Reaction
    a, b, c_, t = _species3(ctx)
    r1 = Reaction(reactants=[a], reactants_stoich=[1.], products=[c_], products_stoich=[1.])
    r2 = Reaction(reactants=[a], reactants_stoich=[1.], products=[b], products_stoich=[1.])
    return PhaseDiagram(reactions=[r1, r2], norm_factors=[_num(ctx, 'nf0', 0.5, 5), _num(ctx, 'nf1', 0.5, 5)])


def mk_IdealGasEOS(ctx):
    from pmutt.eos import IdealGasEOS
    return IdealGasEOS()


def mk_vanDerWaalsEOS(ctx):
    from pmutt.eos import vanDerWaalsEOS
    return vanDerWaalsEOS(a=_num(ctx, 'a', 0.003, 3), b=_num(ctx, 'b', 1e-5, 2e-4))


MODE_G = ['get_q', 'get_CvoR', 'get_CpoR', 'get_UoRT', 'get_HoRT', 'get_SoR', 'get_FoRT', 'get_GoRT']
EMP_G = ['get_CpoR', 'get_HoRT', 'get_SoR', 'get_GoRT']
RXN_G = [('get_delta_HoRT', {}), ('get_delta_GoRT', dict(rev=True)), ('get_HoRT_act', {}), ('get_GoRT_act', dict(rev=True)), ('get_delta_SoR', dict(act=True)),
         ('get_delta_CpoR', {}), ('get_HoRT_state', dict(state='transition state')), ('get_Keq', {})]

RXN_U = [('get_delta_HoRT', {}), ('get_delta_GoRT', dict(rev=True)), ('get_delta_SoR', dict(act=True)), ('get_HoRT_state', dict(state='transition state')),
         ('get_delta_CpoR', dict(act=True, rev=True))]

# name -> (constructor, getters [(method, kwargs)], identifying attributes)
CASES = {
    'FreeTrans': (mk_FreeTrans, MODE_G, ['n_degrees', 'molecular_weight']),
    'HarmonicVib': (mk_HarmonicVib, MODE_G + ['get_ZPE'], ['imaginary_substitute']),
    'QRRHOVib': (mk_QRRHOVib, MODE_G[1:] + ['get_ZPE'], ['alpha', 'Bav', 'v0', 'imaginary_substitute']),
    'EinsteinVib': (mk_EinsteinVib, MODE_G + ['get_ZPE'], ['einstein_temperature', 'interaction_energy']),
    'DebyeVib': (mk_DebyeVib, ['get_ZPE'], ['debye_temperature', 'interaction_energy']),
    'RigidRotor': (mk_RigidRotor, MODE_G, ['symmetrynumber', 'geometry']),
    'GroundStateElec': (mk_GroundStateElec, MODE_G + [('get_q', dict(ignore_q_elec=False))], ['potentialenergy', 'spin', 'D0']),
    'EmptyNucl': (mk_EmptyNucl, MODE_G, []),
    'EmptyMode': (mk_EmptyMode, MODE_G, []),
    'ConstantMode': (mk_ConstantMode, MODE_G, ['notes']),
    'StatMech': (mk_StatMech, MODE_G + ['get_EoRT'], ['name', 'elements', 'notes', 'smiles']),
    'StatMech+misc_models': (mk_StatMech_misc, [('get_HoRT', dict(x=0.4)), ('get_GoRT', dict(x=0.95)), 'get_SoR'], ['name', 'elements']),
    'StatMech+references': (mk_StatMech_refs, ['get_HoRT', 'get_GoRT', ('get_HoRT', dict(use_references=False))], ['name', 'elements']),
    'Nasa': (mk_Nasa, EMP_G, ['name', 'elements', 'phase', 'notes', 'T_low', 'T_mid', 'T_high']),
    'Nasa+model-attached-after-the-pressure-adjustment': (mk_Nasa_misc_after_adj, EMP_G + [('get_HoRT', dict(x=0.95))], ['name', 'phase']),
    'Nasa+cat_site': (mk_Nasa_surface, EMP_G, ['name', 'phase', 'n_sites']),
    'Nasa9': (mk_Nasa9, EMP_G, ['name', 'elements', 'phase', 'notes', 'n_sites']),
    'SingleNasa9': (mk_SingleNasa9, ['get_CpoR', 'get_HoRT', 'get_SoR'], ['T_low', 'T_high']),
    'Nasa9/intervals-stored-hottest-first': (mk_Nasa9_descending, EMP_G, ['name', 'elements', 'phase']),
    'Shomate': (mk_Shomate, EMP_G, ['name', 'elements', 'phase', 'notes', 'units', 'T_low', 'T_high']),
    'GasPressureAdj': (mk_GasPressureAdj, ['get_SoR', 'get_HoRT', 'get_CpoR'], []),
    'PiecewiseCovEffect': (mk_PiecewiseCovEffect, [('get_HoRT', dict(x=0.55)), ('get_GoRT', dict(x=0.95)), ('get_UoRT', dict(x=0.05))], ['name_i', 'name_j', 'name']),
    'CatSite': (mk_CatSite, [], ['name', 'site_density', 'density', 'bulk_specie']),
    'BEP': (mk_BEP, [], ['name', 'slope', 'intercept', 'descriptor', 'notes', 'elements']),
    'omkm.BEP': (mk_omkmBEP, [], ['name', 'slope', 'intercept', 'descriptor', 'notes', 'direction']),
    'SurfaceReaction+BEP': (mk_SurfaceReaction_BEP, ['get_delta_HoRT', ('get_delta_HoRT', dict(act=True)), ('get_delta_GoRT', dict(act=True)),
                                                    ('get_GoRT_act', dict(rev=True))], ['id', 'direction', 'beta']),
    'Reference': (mk_Reference, [], ['name', 'elements', 'T_ref', 'HoRT_ref']),
    'Reference/gas-phase': (mk_Reference_gas, [], ['name', 'elements', 'phase', 'notes', 'T_ref', 'HoRT_ref']),
    'References': (mk_References, [('get_HoRT', dict(descriptors={'H': 2, 'O': 1})), ('get_GoRT', dict(descriptors={'H': 4}))], ['descriptor', 'T_ref']),
    'LSR': (mk_LSR, ['get_UoRT', 'get_HoRT', 'get_FoRT', 'get_GoRT', 'get_q', 'get_SoR'], ['notes']),
    'Reaction': (mk_Reaction, RXN_G, ['notes']),
    'ChemkinReaction': (mk_ChemkinReaction, RXN_U, ['notes', 'beta', 'is_adsorption', 'sticking_coeff', 'gas_phase']),
    'SurfaceReaction': (mk_SurfaceReaction, RXN_U, ['notes', 'id', 'beta', 'is_adsorption', 'direction', 'use_motz_wise']),
    'SurfaceReaction+rate-parameters': (mk_SurfaceReaction_rate, RXN_U, ['id', 'is_adsorption']),
    'Reactions': (mk_Reactions, [('__len__', None)], []),
    'PhaseDiagram': (mk_PhaseDiagram, [('get_GoRT_1D', dict(x_name='T', x_values=[300., 900.], P=1.0))], []),
    'IdealGasEOS': (mk_IdealGasEOS, [('get_V', dict(n=2.0)), ('get_P', dict(V=0.5))], []),
    'vanDerWaalsEOS': (mk_vanDerWaalsEOS, [('get_P', dict(V=0.5, n=2.0)), ('get_Tc', None), ('get_Pc', None), ('get_Vc', None)], ['a', 'b']),
}


def _call(obj, name, kw, T, P):
    from pmutt import _pass_expected_arguments, _kwargs_allowed
    m = getattr(obj, name)
    if kw is None:
        return m()
    args = dict(T=T, P=P)
    args.update(kw)
    if _kwargs_allowed(m):
        return m(**args)
    return _pass_expected_arguments(m, **args)


def _cmp(ctx, label, a, b):
    import numpy as np
    if isinstance(a, tuple):
        ctx.true(label + ' (tuple length)', isinstance(b, tuple) and len(a) == len(b))
        if isinstance(b, tuple) and len(a) == len(b):
            for i, (x, y) in enumerate(zip(a, b)):
                _cmp(ctx, '%s[%d]' % (label, i), x, y)
        return
    if isinstance(a, np.ndarray) or isinstance(a, list):
        A, B = np.asarray(a, dtype=object), np.asarray(b, dtype=object)
        ctx.true(label + ' (shape)', A.shape == B.shape)
        if A.shape == B.shape:
            for idx in np.ndindex(A.shape):
                ctx.eq('%s%s' % (label, list(idx)), A[idx], B[idx])
        return
    ctx.eq(label, b, a)


def _attr_same(a, b):
    import numpy as np
    if type(a).__name__ == 'Sym' or type(b).__name__ == 'Sym':
        return a is b or (type(a).__name__ == 'Sym' and type(b).__name__ == 'Sym' and a.e is b.e)
    if isinstance(a, dict):
        return isinstance(b, dict) and set(a) == set(b) and all(_attr_same(a[k], b[k]) for k in a)
    if isinstance(a, (list, tuple, np.ndarray)):
        return hasattr(b, '__len__') and len(a) == len(b) and all(_attr_same(x, y) for x, y in zip(a, b))
    if isinstance(a, float) and isinstance(b, float):
        return a == b
    try:
        return bool(a == b)
    except Exception:
        return False


def h_case(ctx, case, times):
    mk, getters, attrs = CASES[case]
    if 'eference' in case:
        # a reload that re-fits reference offsets reaches numpy.linalg.lstsq: contract stub (normal equations), as in C10
        from checks.c10 import _install_lstsq
        _install_lstsq(ctx)
    obj = mk(ctx)
    T = ctx.real('T', 300, 2000)
    P = ctx.real('P', 0.01, 100)
    try:
        copy = obj
        for _ in range(times):
            copy = roundtrip(ctx, copy)
    except Exception as e:
        ctx.fail('encodes and decodes without error (%s: %s)' % (type(e).__name__, str(e)[:80]))
        return
    ctx.true('encodes and decodes without error', True)
    ctx.true('decodes to the same class', type(copy) is type(obj))
    if type(copy) is not type(obj):
        return
    for a in attrs:
        ctx.true('attribute %s preserved' % a, hasattr(copy, a) and _attr_same(getattr(obj, a), getattr(copy, a)))
    for a in ('A', 'Ea', 'sticking_coeff', 'beta'):
        if hasattr(obj, a) and getattr(obj, a) is not None and type(getattr(obj, a)).__name__ in ('Sym', 'float', 'int'):
            ok = hasattr(copy, a) and getattr(copy, a) is not None
            ctx.true('rate parameter %s still set on the copy' % a, ok)
            if ok:
                ctx.eq('rate parameter %s same on the copy' % a, getattr(copy, a), getattr(obj, a))
    if getattr(obj, 'misc_models', None) is not None:
        ctx.true('same attached models, each once', [type(m) for m in obj.misc_models] == [type(m) for m in (copy.misc_models or [])])
    if getattr(obj, 'transition_state', None):
        ctx.true('transition-state members decode to their own classes',
                 [type(x) for x in obj.transition_state] == [type(x) for x in (copy.transition_state or [])])
    if getattr(obj, 'bep', None) is not None:
        ctx.true('the reaction is still tied to its BEP relationship', getattr(copy, 'bep', None) is not None and type(copy.bep) is type(obj.bep))
    for gt in getters:
        name, kw = (gt, {}) if isinstance(gt, str) else gt
        try:
            want = _call(obj, name, kw, T, P)
        except Exception as e:
            ctx.note('getter %s not usable on the original: %r' % (name, e))
            continue
        try:
            got = _call(copy, name, kw, T, P)
        except Exception as e:
            ctx.fail('%s%s works on the copy (%s)' % (name, kw or '', type(e).__name__))
            continue
        _cmp(ctx, '%s%s same on the copy' % (name, kw or ''), want, got)


def mk_Reactions_shared_names(ctx):
    """a reaction set in which two different species carry the same name (e.g. two fits of one molecule) and two have none"""
    from pmutt.reaction import Reactions, Reaction
    a, b, c_, t = _species3(ctx)
    c2 = _nasa(ctx, 'C2.', name=c_.name)            # same name as c_, different coefficients
    u1, u2 = _nasa(ctx, 'U1.', name=None), _nasa(ctx, 'U2.', name=None)
    r1 = Reaction(reactants=[a], reactants_stoich=[1.], products=[c_], products_stoich=[1.])
    r2 = Reaction(reactants=[b], reactants_stoich=[1.], products=[c2], products_stoich=[1.])
    r3 = Reaction(reactants=[u1], reactants_stoich=[1.], products=[u2], products_stoich=[1.])
    return Reactions(reactions=[r1, r2, r3])


def h_reactions_members(ctx, times, shared=False):
    from pmutt.reaction import Reactions
    obj = mk_Reactions_shared_names(ctx) if shared else mk_Reactions(ctx)
    T = ctx.real('T', 300, 2000)
    copy = obj
    try:
        for _ in range(times):
            copy = roundtrip(ctx, copy)
    except Exception as e:
        ctx.fail('encodes and decodes without error (%s)' % type(e).__name__)
        return
    ctx.true('same number of reactions', len(copy.reactions) == len(obj.reactions))
    for i, (a, b) in enumerate(zip(obj.reactions, copy.reactions)):
        ctx.eq('reaction %d: delta H same on the copy' % i, b.get_delta_HoRT(T=T), a.get_delta_HoRT(T=T))
        ctx.true('reaction %d: transition state kept or absent as in the original' % i, (a.transition_state is None) == (b.transition_state is None))


def h_repeatable(ctx, case):
    """decoding does not alter the dictionary it was given; decoding it again gives the same object"""
    from pmutt.io.json import json_to_pmutt
    mk, getters, attrs = CASES[case]
    obj = mk(ctx)
    try:
        d = obj.to_dict()
    except Exception as e:
        ctx.fail('to_dict works (%s)' % type(e).__name__)
        return
    snap = _deep_snapshot(d)
    try:
        first = json_to_pmutt(d)
    except Exception as e:
        ctx.fail('the object hook rebuilds the object from its own to_dict (%s)' % type(e).__name__)
        return
    ctx.true('the dictionary handed to the decoder is unchanged', _deep_same(snap, d))
    try:
        second = json_to_pmutt(d)
    except Exception as e:
        ctx.fail('decoding the same dictionary again works (%s)' % type(e).__name__)
        return
    ctx.true('decoding the same dictionary again gives the same class', type(second) is type(obj) and type(first) is type(obj))


def groups(tier):
    g = []
    for case in CASES:
        for times in (1, 2):
            g.append(dict(name='%s/x%d' % (case, times), harness=h_case, params=dict(case=case, times=times), no_validate=True, timeout_ms=60000))
        g.append(dict(name='%s/decoder-repeatable' % case, harness=h_repeatable, params=dict(case=case), no_validate=True))
    for times in (1, 2):
        g.append(dict(name='Reactions/members/x%d' % times, harness=h_reactions_members, params=dict(times=times), no_validate=True))
        g.append(dict(name='Reactions/members-with-shared-or-missing-species-names/x%d' % times, harness=h_reactions_members,
                      params=dict(times=times, shared=True), no_validate=True))
    return g
