# NA_REASON['Cxx'] = '...'   (only for properties that are genuinely out of reach; others default to "not built yet")
