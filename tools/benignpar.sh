#!/bin/bash
# benignpar.sh <jobs> <names...> : like benignall.sh but on scratch worktrees of /repo (PMUTT_REPO), several at a time.
J=$1; shift
mkdir -p /tmp/par
run_one() {
  n=$1
  d=/verif/benign/$n
  P=$(python3 -c "import json;print(json.load(open('$d/meta.json'))['property'])")
  wt=/tmp/par/b_$n
  git -C /repo worktree add -q --detach $wt HEAD >/dev/null 2>&1 || { echo "$n worktree failed"; return; }
  if git -C $wt apply $d/patch.diff 2>/dev/null; then
    PMUTT_REPO=$wt VERIF_EVIDENCE_DIR=/tmp/par/bev_$n /verif/bin/vcheck $P > /tmp/benigntest_$n.log 2>&1; rc=$?
  else
    rc=9
  fi
  git -C /repo worktree remove --force $wt >/dev/null 2>&1
  rm -rf /tmp/par/bev_$n
  first=$(grep -m1 -E "violated:|INCONCLUSIVE|HARNESS" /tmp/benigntest_$n.log 2>/dev/null | sed 's/ lhs=.*//; s/ env=.*//' | cut -c1-300)
  python3 - "$d/meta.json" "$rc" "$first" <<'PY'
import json,sys
p,rc,first=sys.argv[1:4]
m=json.load(open(p))
m['outcome']=dict(check='quick', exit=int(rc) if rc else None, first_alarm=first.strip() or None)
json.dump(m,open(p,'w'),indent=1)
PY
  echo "$n exit=$rc $first" | cut -c1-220
}
export -f run_one
printf "%s\n" "$@" | xargs -P $J -I{} bash -c 'run_one {}'
git -C /repo worktree prune
