add('C02', 'DESIGN.md 4/C02',
    'For every coefficient vector, segment layout and temperature within the stated bounds, z3 proves (unsat of the negation, exact real arithmetic) that the terms computed by the real evaluators and public getters satisfy dH/dT=Cp, dS/dT=Cp/T, G=H-TS, equal the textbook NASA-7/NASA-9/Shomate forms of the segment containing T, refuse T outside every NASA-9 segment, and that array evaluation equals per-element evaluation (arrays <= 2 quick / 3 thorough).',
    'Floats as reals; misc_models empty; array length and NASA-9 segment count bounded; trusted: z3, the symx translator (validated against float execution each run), NumPy object-array dispatch.')

add('C17', 'DESIGN.md 4/C17',
    'Inductive step decided by z3 over all valid states: from the constructor state of arbitrary ascending breakpoints (k<=4 quick, 5 thorough) and slopes, one real insert(interval, slope) with symbolic arguments in each region (between / equal / above) or one pop(i) leaves the lists sorted and paired and makes get_UoRT/HoRT/GoRT/FoRT*R*T equal the reference continuous piecewise-linear energy for every coverage and temperature; S=Cv=Cp=0, T-independence, reload invariance; plus explicit 2-3 step histories.',
    'Pre-state = constructor output for arbitrary valid lists (every mutator ends in _set_intercepts, checked by the explicit histories); floats as reals; k bounded.')

add('C20', 'DESIGN.md 4/C20',
    'For all T, P, V, n, a, b, Tc, Pc in the stated physical ranges z3 proves that every ideal-gas getter composed with its inverse is the identity, V is linear in n, the van der Waals get_T/get_P invert each other, every value numpy.roots may return for the cubic the code builds reproduces P through get_P (so the cubic coefficients are right), the selected root is the largest/smallest real one, the true molar volume is a root of that cubic, |P_vdW-P_ideal| obeys an explicit bound vanishing with density, and the critical constants round-trip (Tc, Pc, Vc=3nb, dP/dV=0 at the critical point).',
    'numpy.roots replaced by a contract stub (any values satisfying the cubic; completeness of the root finder not claimed); floats as reals.')
