#!/usr/bin/env python3
"""print the markdown table of seeded changes (DESIGN.md 8.6) from seeded/*/meta.json"""
import json, glob, os, re
print('| seed | change (file: what) | quick check | first violated obligation |')
print('|---|---|---|---|')
for d in sorted(glob.glob('/verif/seeded/*')):
    m = json.load(open(d + '/meta.json'))
    t = (m.get('needs') or '').split('\n')[0]
    t = re.sub(r'^Change( \d)?:?\s*(\(.*?\):\s*)?', '', t).replace('|', '/')
    if len(t) > 210:
        t = t[:207] + '...'
    db = m.get('detected_by') or {}
    if db.get('exit') == 1:
        res, first = 'VIOLATION (exit 1)', re.sub(r'^violated:\s*', '', db.get('first_violation', '')).replace('|', '/')[:170]
    elif db.get('exit') is None:
        res, first = 'n/a', db.get('note', '')
    elif db.get('exit') == 2:
        res, first = 'alarm, no verdict (exit 2)', (m.get('miss_note') or db.get('note', ''))[:260]
    else:
        res, first = '**missed** (exit %s)' % db.get('exit'), (m.get('miss_note') or db.get('note', ''))[:260]
    print('| %s | %s | %s | %s |' % (os.path.basename(d), t, res, first))
