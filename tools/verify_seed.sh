#!/bin/bash
# verify_seed.sh <worktree> <i> : confirm demo_i passes clean, fails patched, suite unchanged with patch
WT=$1; I=$2
cd $WT || exit 9
git checkout -q -- . ; git status --short | grep -v '^??' && { echo "worktree dirty"; exit 9; }
PYTHONPATH=$WT /venv/bin/python _demo/demo_$I.py >/tmp/seed/_out_clean.txt 2>&1; c=$?
git apply _demo/patch_$I.diff || { echo "patch does not apply"; exit 9; }
PYTHONPATH=$WT /venv/bin/python _demo/demo_$I.py >/tmp/seed/_out_patched.txt 2>&1; p=$?
t=$(PYTHONPATH=$WT /venv/bin/python -m pytest -q -p no:cacheprovider --timeout=900 --continue-on-collection-errors pmutt 2>&1 | tail -1)
git checkout -q -- .
echo "demo_clean_exit=$c demo_patched_exit=$p tests: $t"
