#!/usr/bin/env python3
import json, sys, glob, jsonschema
sch = json.load(open('/root/.vp/EVIDENCE.schema.json'))
bad = 0
for f in sorted(glob.glob('/verif/evidence/*.json')):
    try:
        jsonschema.validate(json.load(open(f)), sch)
        print('ok ', f)
    except Exception as e:
        bad += 1
        print('BAD', f, str(e)[:300])
sys.exit(1 if bad else 0)
