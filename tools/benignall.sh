#!/bin/bash
# benignall.sh [pattern] : every behaviour-preserving refactoring must leave the quick check of its property at exit 0
cd /verif
for d in benign/${1:-C*}; do
  n=$(basename $d)
  out=$(SEED_LINES=2 tools/benigntest.sh /verif/$d 2>&1)
  rc=$(echo "$out" | sed -n 's/^benign=.* exit=\([0-9]*\)$/\1/p')
  if echo "$out" | grep -q "patch does not apply"; then rc=9; fi
  first=$(echo "$out" | grep -m1 -E "violated:|INCONCLUSIVE|HARNESS" | sed 's/ lhs=.*//; s/ env=.*//' | cut -c1-300)
  python3 - "$d/meta.json" "$rc" "$first" <<'PY'
import json,sys
p,rc,first=sys.argv[1:4]
m=json.load(open(p))
m['outcome']=dict(check='quick', exit=int(rc) if rc else None, first_alarm=first.strip() or None)
json.dump(m,open(p,'w'),indent=1)
PY
  echo "$n exit=$rc $first" | cut -c1-220
done
