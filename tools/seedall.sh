#!/bin/bash
# seedall.sh [pattern] : run every seeded change through the quick check of its property (sequentially: each one patches
# /repo and reverts), and record the outcome in seeded/<id>/meta.json (detected_by).  Summary on stdout.
cd /verif
for d in seeded/${1:-C*}; do
  n=$(basename $d)
  out=$(SEED_LINES=2 tools/seedtest.sh $n 2>&1)
  rc=$(echo "$out" | sed -n 's/^seed=.* exit=\([0-9]*\)$/\1/p')
  if echo "$out" | grep -q "patch does not apply"; then rc=9; fi
  first=$(grep -m1 -E "violated:" /tmp/seedtest_$n.log | sed 's/ lhs=.*//; s/ env=.*//' | cut -c1-300)
  python3 - "$d/meta.json" "$rc" "$first" <<'PY'
import json,sys
p,rc,first=sys.argv[1:4]
m=json.load(open(p))
if rc=='1':
    m['detected_by']=dict(check='quick', exit=1, first_violation=first.strip())
elif rc=='9':
    m['detected_by']=dict(check='quick', exit=None, note=m.get('miss_note') or 'patch no longer applies to the repaired tree')
elif rc=='2':
    m['detected_by']=dict(check='quick', exit=2, note=m.get('miss_note') or 'alarm without verdict: the engine refuses a construct of the changed code (harness error / inconclusive, exit 2)')
else:
    m['detected_by']=dict(check='quick', exit=int(rc) if rc else None, note=m.get('miss_note','not detected'))
json.dump(m,open(p,'w'),indent=1)
PY
  echo "$n exit=$rc $first" | cut -c1-200
done
