#!/usr/bin/env python3
"""Regenerates /verif/MANIFEST.json from the table below and validates it."""
import json, os, sys
V = os.path.dirname(os.path.dirname(os.path.abspath(__file__)))
ALL = ['C%02d' % i for i in range(1, 21)]

CLAIMED = {
    # id: (design_ref, level text, level note, technique)
}

def add(pid, ref, text, note, tech='bounded symbolic execution of the real Python source on proxy values; z3 (NRA/LIA) decides each obligation per path; counterexamples replayed on the uninstrumented package'):
    CLAIMED[pid] = (ref, text, note, tech)

exec(open(os.path.join(V, 'tools', 'claims.py')).read())

NA_REASON = {}
exec(open(os.path.join(V, 'tools', 'not_applicable.py')).read())

checks = []
for pid in ALL:
    if pid not in CLAIMED:
        continue
    ref, text, note, tech = CLAIMED[pid]
    checks.append(dict(
        property_id=pid,
        quick_cmd='/verif/bin/vcheck %s --tier quick' % pid,
        thorough_cmd='/verif/bin/vcheck %s --tier thorough' % pid,
        evidence_file='/verif/evidence/%s.json' % pid,
        replay_cmd_template='/verif/bin/vcheck --replay {path}',
        engine='symx',
        level_claimed=dict(category='other', text=text, design_ref=ref),
        level_note=note,
        technique=tech,
    ))
na = [dict(property_id=p, reason=NA_REASON.get(p, 'check not built yet in this session (see DESIGN.md section 4 for the plan)'))
      for p in ALL if p not in CLAIMED]
m = dict(
    version=1,
    setup_cmd='bash /verif/setup.sh',
    hooks=dict(guard='PMUTT_VERIF', enable='none needed: instrumentation is an import hook inside the checker process (symx/loader.py); no guarded source changes exist in /repo',
               baseline_off_cmd='cd /repo && /venv/bin/python -m pytest -ra -q -p no:cacheprovider --timeout=900 --continue-on-collection-errors',
               source_commits=[], add_only=True),
    engines=[dict(name='symx', path='/verif/symx', serves_properties=sorted(CLAIMED),
                  kind_free_text='purpose-built symbolic executor for pMuTT: import hook + proxy values + decision-prefix path exploration + division-free NRA encoding with exp/log abstraction, z3 5.1 as the deciding solver')],
    checks=checks,
    notes='Bounded solver-based checking; see DESIGN.md. Exit 0 = all obligations unsat (or listed known finding); 1 = reproduced violation; 2 = harness error / inconclusive.',
    not_applicable=na,
)
json.dump(m, open(os.path.join(V, 'MANIFEST.json'), 'w'), indent=1)
import jsonschema
jsonschema.validate(m, json.load(open('/root/.vp/MANIFEST.schema.json')))
print('MANIFEST.json ok: %d checks, %d not_applicable' % (len(checks), len(na)))
