#!/bin/bash
# seedtest.sh <seed-dir-name> [vcheck args...] : apply /verif/seeded/<name>/patch.diff to /repo, run the check of
# its property, always revert.  Prints the check's summary and exit code.
N=$1; shift
D=/verif/seeded/$N
P=$(python3 -c "import json;print(json.load(open('$D/meta.json'))['property'])")
if [ -n "$(git -C /repo status --porcelain)" ]; then echo "/repo not clean"; exit 9; fi
git -C /repo apply $D/patch.diff || { echo "patch does not apply"; exit 9; }
trap 'git -C /repo checkout -q -- .' EXIT
VERIF_EVIDENCE_DIR=/tmp/seed_evidence /verif/bin/vcheck $P "$@" > /tmp/seedtest_$N.log 2>&1; rc=$?
grep -E "^VIOLATION|^KNOWN|violated:|INCONCLUSIVE|HARNESS" /tmp/seedtest_$N.log | cut -c1-260 | head -${SEED_LINES:-6}
tail -1 /tmp/seedtest_$N.log
echo "seed=$N exit=$rc"
