#!/bin/bash
# benigntest.sh <dir with patch.diff + meta.json(property)> [vcheck args] : apply a behaviour-preserving refactoring to /repo,
# run the quick check of its property (must stay exit 0), always revert.
D=$1; shift
P=$(python3 -c "import json;print(json.load(open('$D/meta.json'))['property'])")
if [ -n "$(git -C /repo status --porcelain)" ]; then echo "/repo not clean"; exit 9; fi
git -C /repo apply $D/patch.diff || { echo "patch does not apply"; exit 9; }
trap 'git -C /repo checkout -q -- .' EXIT
N=$(basename $D)
VERIF_EVIDENCE_DIR=/tmp/benign_evidence /verif/bin/vcheck $P "$@" > /tmp/benigntest_$N.log 2>&1; rc=$?
grep -E "^VIOLATION|violated:|INCONCLUSIVE|HARNESS" /tmp/benigntest_$N.log | cut -c1-300 | head -${SEED_LINES:-4}
tail -1 /tmp/benigntest_$N.log | cut -c1-200
echo "benign=$N exit=$rc"
