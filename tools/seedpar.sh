#!/bin/bash
# seedpar.sh <jobs> <seed names...> : like seedall.sh but on scratch worktrees of /repo (PMUTT_REPO), several at a time.
# Only for seed experiments: the registered commands always run against /repo itself.
J=$1; shift
mkdir -p /tmp/par
run_one() {
  n=$1
  d=/verif/seeded/$n
  P=$(python3 -c "import json;print(json.load(open('$d/meta.json'))['property'])")
  wt=/tmp/par/$n
  git -C /repo worktree add -q --detach $wt HEAD >/dev/null 2>&1 || { echo "$n worktree failed"; return; }
  if git -C $wt apply $d/patch.diff 2>/dev/null; then
    PMUTT_REPO=$wt VERIF_EVIDENCE_DIR=/tmp/par/ev_$n /verif/bin/vcheck $P > /tmp/seedtest_$n.log 2>&1; rc=$?
  else
    rc=9
  fi
  git -C /repo worktree remove --force $wt >/dev/null 2>&1
  rm -rf /tmp/par/ev_$n
  first=$(grep -m1 -E "violated:" /tmp/seedtest_$n.log 2>/dev/null | sed 's/ lhs=.*//; s/ env=.*//' | cut -c1-300)
  python3 - "$d/meta.json" "$rc" "$first" <<'PY'
import json,sys
p,rc,first=sys.argv[1:4]
m=json.load(open(p))
if rc=='1':
    m['detected_by']=dict(check='quick', exit=1, first_violation=first.strip())
elif rc=='9':
    m['detected_by']=dict(check='quick', exit=None, note=m.get('miss_note') or 'patch no longer applies to the repaired tree')
elif rc=='2':
    m['detected_by']=dict(check='quick', exit=2, note=m.get('miss_note') or 'alarm without verdict: the engine refuses a construct of the changed code (harness error / inconclusive, exit 2)')
else:
    m['detected_by']=dict(check='quick', exit=int(rc) if rc else None, note=m.get('miss_note','not detected'))
json.dump(m,open(p,'w'),indent=1)
PY
  echo "$n exit=$rc $first" | cut -c1-220
}
export -f run_one
printf "%s\n" "$@" | xargs -P $J -I{} bash -c 'run_one {}'
git -C /repo worktree prune
