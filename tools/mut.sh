#!/bin/bash
# mut.sh <Cxx> <file-relative-to-repo> <python-replace-old> <python-replace-new> [vcheck args]: one-off mutation smoke test
P=$1; F=$2; OLD=$3; NEW=$4; shift 4
if [ -n "$(git -C /repo status --porcelain)" ]; then echo "/repo not clean"; exit 9; fi
trap 'git -C /repo checkout -q -- .' EXIT
python3 - "$F" "$OLD" "$NEW" <<'PY' || exit 9
import sys
f,old,new=sys.argv[1:4]
p='/repo/'+f; s=open(p).read()
assert s.count(old)>=1, 'pattern not found'
open(p,'w').write(s.replace(old,new,1))
PY
VERIF_EVIDENCE_DIR=/tmp/seed_evidence /verif/bin/vcheck $P "$@" > /tmp/mut.log 2>&1; rc=$?
grep -E "violated:|INCONCLUSIVE|HARNESS" /tmp/mut.log | cut -c1-200 | head -4
tail -1 /tmp/mut.log; echo "exit=$rc"
