#!/bin/bash
# runall.sh [quick|thorough] : run every claimed check on the current tree, summarise
T=${1:-quick}
cd /verif
for p in $(python3 -c "import json;print(' '.join(c['property_id'] for c in json.load(open('MANIFEST.json'))['checks']))"); do
  /verif/bin/vcheck $p --tier $T > /tmp/runall_$p.log 2>&1; rc=$?
  echo "exit=$rc $(tail -1 /tmp/runall_$p.log | cut -c1-220)"
  grep -E "^VIOLATION|INCONCLUSIVE|HARNESS" /tmp/runall_$p.log | head -3
done
