#!/bin/bash
# Build the overlay venv used by every check: /venv's packages + /repo (editable) + z3/cvc5/crosshair.
# Offline: uses only /opt/veriftools/wheels.  Idempotent.
set -e
V=/verif/.venv
export PIP_NO_INDEX=1 PIP_DISABLE_PIP_VERSION_CHECK=1
if [ ! -x "$V/bin/python" ] || ! "$V/bin/python" -c "import z3, numpy, pmutt, jsonschema" >/dev/null 2>&1; then
  (
    flock 9
    if [ ! -x "$V/bin/python" ] || ! "$V/bin/python" -c "import z3, numpy, pmutt, jsonschema" >/dev/null 2>&1; then
      rm -rf "$V"
      /venv/bin/python -m venv "$V"
      SP=$("$V/bin/python" -c "import sysconfig; print(sysconfig.get_paths()['purelib'])")
      printf "import site; site.addsitedir('/venv/lib/python3.12/site-packages')\n/repo\n" > "$SP/_overlay.pth"
      "$V/bin/pip" install -q --no-index --find-links /opt/veriftools/wheels z3-solver cvc5 sympy jsonschema crosshair-tool
    fi
  ) 9>/tmp/.verif_setup.lock
fi
"$V/bin/python" -c "import z3, cvc5, numpy, pmutt, jsonschema, mpmath; print('verif venv ok', z3.get_version_string())"
